package verifsim

import (
	"fmt"
	"sort"
	"strings"

	"google.golang.org/protobuf/proto"
	"google.golang.org/protobuf/reflect/protoreflect"
)

// C06: routing dispatches exactly the method whose binding matches the request.

var c06Lits = []string{"v1", "v2", "a", "b", "items", "x.y", "~z", "a-b", "a%20b", "%7Euser", "caf%C3%A9", "A", "v1beta", "things", "0", "%24meta", "a%40b", "x%2By", "p%2Cq", "it%3Bem", "k%3Dv", "%28x%29"}
var c06SegVals = []string{"x", "abc", "a%20b", "a%25b", "100%25", "a%2Fb", "a%2fb", "a%3Ab", "%E6%97%A5", "a+b", "a,b", "a;b", "a=b", "~t", "a.b", "A", "v1", "items", "a%2541", "sp%20ace", "%7E", "@", "a$b", "(x)", "a'b", "a!b", "*", "%2A"}
var c06Vars = []string{"string_value", "recursive.string_value", "recursive.recursive.string_value", "string_value_wrapper"}
var c06Methods = []string{"Plain", "Query", "PathStr", "BodyStar", "Del"}

func genTemplate(c *Chooser, nvars int) string {
	var segs []string
	n := c.Range(1, 4)
	usedVars := 0
	dstar := false
	for i := 0; i < n; i++ {
		last := i == n-1
		switch k := c.Intn(10); {
		case k < 5:
			segs = append(segs, c06Lits[c.Intn(len(c06Lits))])
		case k < 6:
			segs = append(segs, "*")
		case k < 7 && last:
			segs = append(segs, "**")
			dstar = true
		case usedVars < nvars:
			v := c06Vars[usedVars]
			usedVars++
			switch c.Intn(5) {
			case 0:
				segs = append(segs, "{"+v+"}")
			case 1:
				segs = append(segs, "{"+v+"=*}")
			case 2:
				segs = append(segs, "{"+v+"="+c06Lits[c.Intn(len(c06Lits))]+"/*}")
			case 3:
				if last {
					segs = append(segs, "{"+v+"=**}")
					dstar = true
				} else {
					segs = append(segs, "{"+v+"=*/"+c06Lits[c.Intn(len(c06Lits))]+"}")
				}
			default:
				if last {
					segs = append(segs, "{"+v+"="+c06Lits[c.Intn(len(c06Lits))]+"/**}")
					dstar = true
				} else {
					segs = append(segs, "{"+v+"=*/*}")
				}
			}
		default:
			segs = append(segs, c06Lits[c.Intn(len(c06Lits))])
		}
		if dstar {
			break
		}
	}
	t := "/" + strings.Join(segs, "/")
	if c.Prob(0.25) {
		t += ":" + Pick(c, "verb", "cancel", "a.b", "x%20y", "x%24y")
	}
	return t
}

func genRouteTable(c *Chooser) []RulePlan {
	var rules []RulePlan
	n := c.Range(1, 6)
	for i := 0; i < n; i++ {
		m := c06Methods[c.Intn(len(c06Methods))]
		r := RulePlan{Selector: "sim.v1.ParamService." + m, Method: Pick(c, "GET", "GET", "POST", "DELETE", "PUT", "PATCH"), Template: genTemplate(c, c.Range(0, 3))}
		if c.Prob(0.1) {
			r.Custom, r.Method = true, Pick(c, "*", "HEAD", "OPTIONS")
		}
		if c.Prob(0.2) {
			r.Additional = []RulePlan{{Method: Pick(c, "GET", "POST", "DELETE"), Template: genTemplate(c, c.Range(0, 2))}}
		}
		rules = append(rules, r)
	}
	// deliberately overlapping pairs: same shape, literal vs wildcard
	if c.Prob(0.5) && len(rules) > 0 {
		base := rules[c.Intn(len(rules))]
		t := base.Template
		if i := strings.Index(t, "*"); i >= 0 && !strings.Contains(t, "{") {
			rules = append(rules, RulePlan{Selector: "sim.v1.ParamService." + c06Methods[c.Intn(len(c06Methods))], Method: base.Method, Template: t[:i] + c06Lits[c.Intn(len(c06Lits))] + strings.TrimPrefix(t[i:], "**")[min1(len(strings.TrimPrefix(t[i:], "**")), boolInt(strings.HasPrefix(t[i:], "**") == false)):]})
		}
	}
	return rules
}

func min1(a, b int) int {
	if a < b {
		return a
	}
	return b
}
func boolInt(b bool) int {
	if b {
		return 1
	}
	return 0
}

// pathFor renders a request path that matches the template (before perturbation).
func pathFor(c *Chooser, tm *refTemplate) string {
	var parts []string
	for _, s := range tm.segs {
		switch s.kind {
		case "lit":
			parts = append(parts, escapeSegment(s.lit, false))
		case "star":
			parts = append(parts, c06SegVals[c.Intn(len(c06SegVals))])
		case "dstar":
			for k, n := 0, Pick(c, 0, 1, 1, 2, 3); k < n; k++ {
				parts = append(parts, c06SegVals[c.Intn(len(c06SegVals))])
			}
		}
	}
	p := "/" + strings.Join(parts, "/")
	if tm.verb != "" {
		p += ":" + escapeSegment(tm.verb, false)
	}
	return p
}

func perturbPath(c *Chooser, p string) string {
	switch c.Intn(12) {
	case 0:
		return p + "/"
	case 1:
		return strings.Replace(p, "/", "//", 1)
	case 2:
		return p + ":verb"
	case 3:
		if i := strings.LastIndex(p, ":"); i > 0 {
			return p[:i]
		}
	case 4:
		return p + "/extra"
	case 5:
		if i := strings.LastIndex(p, "/"); i > 0 {
			return p[:i]
		}
	case 6:
		return strings.Replace(p, "a", "A", 1)
	case 7:
		return strings.Replace(p, "%20", " ", 1)
	case 8:
		return strings.Replace(p, "~", "%7E", 1)
	case 9:
		return strings.Replace(p, "%7E", "~", 1)
	case 10:
		// the same path spelled differently: characters that may stand for themselves in a path segment, un-escaped
		for _, pair := range [][2]string{{"%24", "$"}, {"%40", "@"}, {"%2B", "+"}, {"%2C", ","}, {"%3B", ";"}, {"%3D", "="}, {"%28", "("}, {"%29", ")"}, {"%2A", "*"}, {"%21", "!"}, {"%27", "'"}} {
			if strings.Contains(p, pair[0]) {
				if c.Bool() {
					return strings.Replace(p, pair[0], pair[1], 1)
				}
				p = strings.ReplaceAll(p, pair[0], pair[1])
			}
		}
		return p
	}
	return p
}

func stringAtPath(m protoreflect.Message, path string) (string, bool) {
	fds, ok := fieldByPath(m.Descriptor(), path, false)
	if !ok {
		return "", false
	}
	cur := m
	for _, fd := range fds[:len(fds)-1] {
		cur = cur.Get(fd).Message()
	}
	fd := fds[len(fds)-1]
	if fd.Message() != nil { // StringValue wrapper
		return cur.Get(fd).Message().Get(fd.Message().Fields().ByName("value")).String(), true
	}
	return cur.Get(fd).String(), true
}

type routeView struct {
	kind     string // dispatch | notfound | notallowed | other
	method   string
	captures map[string]string
	allow    []string
	detail   string
}

func observeRoute(p *Plan, r *RunResult, b func(method string) []*refBinding) routeView {
	st := r.RPCs[0]
	if len(st.Backend) == 1 && st.Backend[0].Service != "<unknown-handler>" {
		bo := st.Backend[0]
		rv := routeView{kind: "dispatch", method: bo.RPCMethod, captures: map[string]string{}}
		if len(bo.Msgs) == 1 {
			sch := getSchema("sim2")
			md := sch.methodByFullName(bo.RPCMethod)
			if md != nil {
				m := newMessageFor(md.Input())
				if proto.Unmarshal(bo.Msgs[0], m) == nil {
					for _, vp := range c06Vars {
						if s, ok := stringAtPath(m.ProtoReflect(), vp); ok && s != "" {
							rv.captures[vp] = s
						}
					}
				}
			}
		} else {
			rv.detail = fmt.Sprintf("backend decoded %d messages: %v", len(bo.Msgs), bo.Undecodable)
		}
		return rv
	}
	if len(st.Backend) == 1 {
		return routeView{kind: "notfound", detail: "unknown-endpoint handler"}
	}
	if st.Outcome == nil {
		return routeView{kind: "other", detail: "no outcome"}
	}
	switch st.Outcome.HTTPStatus {
	case 404:
		return routeView{kind: "notfound"}
	case 405:
		return routeView{kind: "notallowed", allow: st.Outcome.Allow}
	}
	return routeView{kind: "other", detail: outcomeBrief(st.Outcome)}
}

func c06Oracle(p *Plan) *Verdict {
	v := &Verdict{}
	r := Run(p)
	v.absorb(r)
	if r.World != nil {
		v.Trace = r.World.Log
	}
	rc := &p.RPCs[0]
	facts := map[string]string{}
	if r.BuildErr != "" {
		v.Class = "config-rejected"
		v.probe("config-rejected")
		return v
	}
	st := r.RPCs[0]
	if st.Rejected != "" {
		v.probe("rejected-by-http-stack")
		return v
	}
	if st.ServePanic != "" {
		v.violate("panic", facts, "ServeHTTP panicked: %s at %s", st.ServePanic, st.ServePanicStack)
		return v
	}
	raw := st.orig.RequestURI
	if i := strings.IndexByte(raw, '?'); i >= 0 {
		raw = raw[:i]
	}
	table := refTable(&p.Config)
	res := resolveRef(table, st.orig.Method, raw)
	obs := observeRoute(p, r, nil)
	v.Nontrivial = true
	v.Class = fmt.Sprintf("ref=%s/obs=%s/rules=%d", res.kind, obs.kind, len(p.Config.Rules))
	v.probe("ref-" + res.kind)
	facts["ref"] = res.kind
	facts["obs"] = obs.kind
	describe := func() string {
		var ts []string
		for _, b := range table {
			ts = append(ts, fmt.Sprintf("%s %s -> %s", b.httpMeth, b.tmpl.raw, b.method.Name()))
		}
		return fmt.Sprintf("request %s %s; table: %s", st.orig.Method, st.orig.RequestURI, strings.Join(ts, " | "))
	}
	checkCaptures := func(want map[string]string) {
		for k, w := range want {
			if !contains(c06Vars, k) {
				continue // (a variable of an annotated method outside this check's vocabulary: C07 binds those)
			}
			if g := obs.captures[k]; g != w {
				f := copyFacts(facts)
				v.violate("captures-differ", f, "variable %s: template capture is %q (decoded once, %%2F kept in multi-segment captures), the method received %q; %s", k, w, g, describe())
				return
			}
		}
		for k, g := range obs.captures {
			if _, ok := want[k]; !ok {
				v.violate("captures-differ", facts, "variable %s received %q but the matching template does not capture it; %s", k, g, describe())
				return
			}
		}
	}
	switch res.kind {
	case "dispatch":
		if obs.kind != "dispatch" {
			v.violate("matching-binding-not-dispatched", facts, "the reference matcher dispatches to %s, observed %s %s; %s", res.binding.method.Name(), obs.kind, obs.detail, describe())
			return v
		}
		if obs.method != string(res.binding.method.FullName()) {
			v.violate("wrong-method-dispatched", facts, "the reference matcher dispatches to %s, the request reached %s; %s", res.binding.method.FullName(), obs.method, describe())
			return v
		}
		if obs.detail == "" {
			checkCaptures(res.captures)
		}
	case "notfound":
		if obs.kind == "dispatch" {
			v.violate("dispatched-without-match", facts, "no template matches, yet %s was invoked; %s", obs.method, describe())
		} else if obs.kind != "notfound" {
			v.violate("not-404", facts, "no template matches; expected 404, observed %s %s; %s", obs.kind, obs.detail, describe())
		}
	case "notallowed":
		if obs.kind == "dispatch" {
			v.violate("dispatched-with-wrong-method", facts, "the template has methods %v only, yet %s was invoked; %s", res.allow, obs.method, describe())
		} else if obs.kind != "notallowed" {
			v.violate("not-405", facts, "the path matches a template without this HTTP method (it has %v); expected 405, observed %s %s; %s", res.allow, obs.kind, obs.detail, describe())
		} else {
			if len(obs.allow) == 0 {
				v.violate("allow-header", facts, "405 without Allow; %s", describe())
			}
			for _, a := range obs.allow {
				if !contains(res.allow, a) {
					v.violate("allow-header", facts, "Allow names %s which the matching template does not have (%v); %s", a, res.allow, describe())
				}
			}
		}
	case "abstain":
		if obs.kind == "dispatch" && len(res.cands) > 0 {
			ok := false
			for _, b := range res.cands {
				if string(b.method.FullName()) == obs.method && (b.httpMeth == st.orig.Method || b.httpMeth == "*") {
					ok = true
				}
			}
			if !ok {
				v.violate("dispatched-outside-candidates", facts, "several templates match; the invoked method %s is not bound by any of them for %s; %s", obs.method, st.orig.Method, describe())
			}
		}
	}
	// order independence: the same table registered in another order gives the same observation
	if len(p.Config.Rules) > 1 {
		q := p.clone()
		rs := q.Config.Rules
		for i, j := 0, len(rs)-1; i < j; i, j = i+1, j-1 {
			rs[i], rs[j] = rs[j], rs[i]
		}
		qr := Run(q)
		v.absorb(qr)
		if qr.BuildErr == "" && qr.RPCs[0].Rejected == "" {
			o2 := observeRoute(q, qr, nil)
			same := o2.kind == obs.kind && o2.method == obs.method && fmt.Sprint(sortedMap(o2.captures)) == fmt.Sprint(sortedMap(obs.captures))
			if !same {
				v.violate("order-dependent", facts, "registering the same rules in reverse order changes the outcome: %s %s %v vs %s %s %v; %s", obs.kind, obs.method, obs.captures, o2.kind, o2.method, o2.captures, describe())
			}
			v.probe("order-checked")
		} else if qr.BuildErr != "" {
			v.violate("order-dependent-config", facts, "the same rules in reverse order are rejected by NewTranscoder: %s", qr.BuildErr)
		}
	}
	_ = rc
	return v
}

func sortedMap(m map[string]string) []string {
	var out []string
	for k, v := range m {
		out = append(out, k+"="+v)
	}
	sort.Strings(out)
	return out
}

func init() {
	register(&Check{
		ID:    "C06",
		Level: "exploration",
		Rule: "seeded route tables for a service without own annotations plus annotated ones: 1..6 WithRules bindings (and additional_bindings) drawn from the template grammar (escaped and plain literals, *, ** last, variables with and without sub-templates, nested field paths, verbs, custom kinds incl. '*', deliberately overlapping literal/wildcard pairs); " +
			"request paths are rendered from a template of the table with segment values full of escapes (%25 %2F %2f %3A %20 %7E, unicode, reserved characters) and then perturbed (trailing or empty segment, added or removed verb, case, re-escaping), HTTP methods incl. ones the template lacks. " +
			"oracle: an independent matcher on the raw path decides dispatch (method and captures: decoded once, %2F kept in multi-segment captures) / 404 / 405+Allow, literal-over-wildcard precedence; abstains where the statement leaves room (several wildcard templates, ** against zero segments, several ':'); " +
			"and the same rules registered in reverse order must give the same outcome. No schedule or fault dependence: closed world plus reference matcher. distinct = (reference verdict, observed verdict, table size, schedule hash); non-trivial = the request reached ServeHTTP",
		Gen: func(c *Chooser, tier string) *Plan {
			svc := ServicePlan{Schema: "sim2", Protocols: genSubset(c, allTargetProtocols, true), MaxMsg: 1 << 20}
			cfg := ConfigPlan{Services: []ServicePlan{svc}, Rules: genRouteTable(c), UnknownHandler: c.Prob(0.2)}
			table := refTable(&cfg)
			if len(table) == 0 {
				return nil
			}
			b := table[c.Intn(len(table))]
			path := pathFor(c, b.tmpl)
			if c.Prob(0.4) {
				path = perturbPath(c, path)
			}
			method := b.httpMeth
			if method == "*" || c.Prob(0.25) {
				method = Pick(c, "GET", "POST", "PUT", "DELETE", "PATCH", "HEAD", "OPTIONS")
			}
			cp := ClientPlan{Form: FormREST, HTTP: Pick(c, 1, 2), Service: "sim2", Codec: "json", HTTPMethod: method, Path: path}
			bp := BackendPlan{Resp: RespPlan{Msgs: []MsgSpec{{Data: []byte{}}}, TrailerStyle: "prefix"}}
			return &Plan{Config: cfg, RPCs: []RPCPlan{{Client: cp, Backend: bp}}, Sched: SchedPlan{Policy: "seq"}, Pool: PoolPlan{Policy: "lifo"}}
		},
		Oracle:      c06Oracle,
		Components:  stdComponents,
		Assumptions: []string{"template semantics from the comment block of google/api/http.proto; where it leaves room the oracle abstains (see rule)", "NewTranscoder's own map iteration order cannot be seeded; registration order is varied explicitly instead"},
	})
}
