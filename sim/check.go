package verifsim

import (
	"crypto/sha256"
	"encoding/hex"
	"encoding/json"
	"fmt"
	"os"
	"path/filepath"
	"runtime/debug"
	"sort"
	"strings"
	"time"
)

// Violation is one oracle finding. Rule + Facts form the fingerprint; Detail is for the reader.
type Violation struct {
	Rule   string            `json:"rule"`
	Facts  map[string]string `json:"facts"`
	Detail string            `json:"detail"`
	AtSeq  uint64            `json:"at_seq,omitempty"`
}

func (v *Violation) Fingerprint(prop string) string {
	var parts []string
	for _, k := range sortedKeys(v.Facts) {
		parts = append(parts, k+"="+v.Facts[k])
	}
	return prop + "/" + v.Rule + "/" + strings.Join(parts, ",")
}

// Verdict is what an oracle returns for one plan.
type Verdict struct {
	Violations []Violation
	Class      string // scenario class, for counting distinct cases
	Nontrivial bool   // at least one complete message crossed the transcoder (or property-specific rule)
	Probes     map[string]int
	Faults     map[string]int // fault kinds that actually fired
	Runs       int            // worlds executed for this plan
	Steps      int
	SimMs      int64
	SchedHash  string
	AdjPairs   int
	Incidental []string
	Trace      []Event
	Infra      []string // harness faults: reported as machinery error (exit 2), never as a violation
}

func (v *Verdict) probe(name string) {
	if v.Probes == nil {
		v.Probes = map[string]int{}
	}
	v.Probes[name]++
}
func (v *Verdict) fault(name string) {
	if v.Faults == nil {
		v.Faults = map[string]int{}
	}
	v.Faults[name]++
}
func (v *Verdict) violate(rule string, facts map[string]string, format string, args ...any) {
	v.Violations = append(v.Violations, Violation{Rule: rule, Facts: facts, Detail: fmt.Sprintf(format, args...)})
}

// absorb adds the run's bookkeeping to the verdict.
func (v *Verdict) absorb(r *RunResult) {
	v.Runs++
	if r.World != nil {
		if r.World.LockStall != "" {
			// not a verdict about the code: the simulator cannot decide who runs next when a task waits on a lock it does not own
			v.Infra = append(v.Infra, "a task is parked on a lock the simulator does not model: "+r.World.LockStall)
		}
		if r.World.Spin != "" {
			// every property that speaks about an RPC's result presupposes that ServeHTTP comes back; a loop without I/O never does
			v.violate("spin", map[string]string{"site": r.World.SpinSite}, "the transcoder loops without performing any I/O (20 s of wall clock without a read, write, flush, lock, pool or clock call): %s", r.World.Spin)
		}
		if r.World.Runaway != "" {
			site := r.World.Runaway
			if i := strings.Index(site, "@"); i >= 0 {
				site = site[i+1:]
			}
			v.violate("runaway-loop", map[string]string{"site": site}, "after the step cap ended the run every read, write, flush and pool call fails, yet a task was still looping %d steps later: %s", runawayAfterAbort, r.World.Runaway)
		}
		if r.World.LockWaits > 0 {
			v.probe("lock-wait")
		}
		v.Steps += r.World.Steps()
		v.SimMs += r.World.Now()
		v.SchedHash = r.World.SchedHash()
		v.AdjPairs += r.World.AdjPairs()
	}
	for _, tf := range r.TaskFails {
		head, _, _ := strings.Cut(tf, ":")
		if strings.Contains(head, ".server") {
			continue // a panic that escaped ServeHTTP is recorded with the RPC and judged by the checks themselves
		}
		// a goroutine the handler started (its reader or writer): a panic raised by the transcoder's code there takes the
		// whole process down in a real server; a panic anywhere else is the simulator's own fault
		if site := panicSite([]byte(tf)); site != "" && strings.Contains(head, ".h") {
			v.violate("panic-on-handler-goroutine", map[string]string{"site": firstSite(site)}, "the transcoder panicked on a goroutine of the handler: %s", truncate(tf, 900))
			continue
		}
		v.Infra = append(v.Infra, "task failure: "+truncate(tf, 600))
	}
	if r.Env != nil {
		for k, n := range r.Env.Fired {
			if v.Faults == nil {
				v.Faults = map[string]int{}
			}
			v.Faults[k] += n
		}
	}
}

type Check struct {
	ID           string
	Level        string
	Rule         string // how cases are generated and what makes one non-trivial
	Gen          func(c *Chooser, tier string) *Plan
	Directed     func(tier string) []*Plan // fixed prelude that forces every probe at least once
	Oracle       func(p *Plan) *Verdict
	Exhaustive   func(tier string) []*Plan // optional: a finite sub-space enumerated completely
	Components   Components
	Assumptions  []string
	NoShrink     bool // plans are single faults on minimal scenarios already
	UnstableHash bool // byte sizes in the event log legitimately vary between executions (dynamic messages): replay compares fingerprints only
}

type Components struct {
	Real []string `json:"real"`
	Stub []string `json:"stub"`
}

var checks = map[string]*Check{}

func register(c *Check) {
	if raceMode {
		// the race-detector build of the same simulator: every verdict also carries what the detector reported while the
		// plan ran (reports cannot be minimised in-process: the detector tells each race once per process)
		orig := c.Oracle
		c.Oracle = func(p *Plan) *Verdict {
			v := orig(p)
			raceAugment(v)
			return v
		}
		c.NoShrink = true
		c.UnstableHash = true
	}
	checks[c.ID] = c
}

var stdComponents = Components{
	Real: []string{"connectrpc.com/vanguard (all of transcoder.go, protocol_*.go, router.go, params.go, codec.go, compression.go, buffers.go, type_resolver.go, vanguard.go) built from /repo with -tags verif",
		"google.golang.org/protobuf (proto, protojson, dynamicpb, protodesc)", "compress/gzip, compress/zlib", "net/http.ReadRequest (request construction)", "connectrpc.com/connect error types"},
	Stub: []string{"client (scripted reference encoder/decoder per protocol)", "backend http.Handler (scripted, protocol-adaptive reference peer)",
		"request body pipe (SimBody)", "http.ResponseWriter/Flusher (SimRW: documented net/http contract, bytes visible only after Flush)",
		"request context", "buffer pool free list (behind verif hook)", "goroutine scheduling (baton scheduler)", "net/http and x/net/http2 servers (not run)"},
}

// ---------------------------------------------------------------------------------------
// replay files

type ReplayFile struct {
	Property    string    `json:"property"`
	Fingerprint string    `json:"fingerprint"`
	VerifSeed   uint64    `json:"verif_seed"`
	RunSeed     string    `json:"run_seed"`
	Tier        string    `json:"tier"`
	Plan        *Plan     `json:"plan"`
	Violation   Violation `json:"violation"`
	EventHash   string    `json:"event_hash"`
	Trace       []Event   `json:"trace,omitempty"`
	ShrinkRuns  int       `json:"shrink_runs"`
}

func writeReplay(dir string, rf *ReplayFile) (string, error) {
	h := sha256.Sum256([]byte(rf.Fingerprint))
	name := hex.EncodeToString(h[:6]) + ".json"
	d := filepath.Join(dir, rf.Property)
	if err := os.MkdirAll(d, 0o755); err != nil {
		return "", err
	}
	p := filepath.Join(d, name)
	b, err := json.MarshalIndent(rf, "", " ")
	if err != nil {
		return "", err
	}
	// several workers may find the same fingerprint: write aside and rename, so that the file is always one whole replay
	tmp := fmt.Sprintf("%s.%d.tmp", p, os.Getpid())
	if err := os.WriteFile(tmp, b, 0o644); err != nil {
		return "", err
	}
	return p, os.Rename(tmp, p)
}

// ---------------------------------------------------------------------------------------
// known findings

type KnownFinding struct {
	Property string            `json:"property"`
	Rule     string            `json:"rule"`
	Match    map[string]string `json:"match"` // fact -> value; value may be a|b alternatives
	What     string            `json:"what"`
}

type KnownFile struct {
	Findings []KnownFinding `json:"findings"`
	Fixed    []string       `json:"fixed"`
}

func loadKnown(path string) *KnownFile {
	kf := &KnownFile{}
	b, err := os.ReadFile(path)
	if err != nil {
		return kf
	}
	_ = json.Unmarshal(b, kf)
	return kf
}

func (kf *KnownFile) match(prop string, v *Violation) *KnownFinding {
	for i := range kf.Findings {
		k := &kf.Findings[i]
		if k.Property != prop || k.Rule != v.Rule {
			continue
		}
		ok := true
		for fact, want := range k.Match {
			got, has := v.Facts[fact]
			if !has {
				ok = false
				break
			}
			hit := false
			for _, alt := range strings.Split(want, "|") {
				if alt == got {
					hit = true
				}
			}
			if !hit {
				ok = false
				break
			}
		}
		if ok {
			return k
		}
	}
	return nil
}

// ---------------------------------------------------------------------------------------
// worker loop

type WorkerResult struct {
	Property    string           `json:"property"`
	Tier        string           `json:"tier"`
	Seed        uint64           `json:"seed"`
	Worker      int              `json:"worker"`
	Evaluations int              `json:"evaluations"`
	Worlds      int              `json:"worlds"`
	Classes     map[string]int   `json:"classes"` // distinct nontrivial (class|schedhash) -> count
	Trivial     int              `json:"trivial"`
	Probes      map[string]int   `json:"probes"`
	Faults      map[string]int   `json:"faults"`
	Policies    map[string]int   `json:"policies"`
	Steps       int              `json:"steps"`
	SimMs       int64            `json:"sim_ms"`
	AdjPairs    int              `json:"adj_pairs"`
	WallS       float64          `json:"wall_s"`
	Samples     []*Plan          `json:"samples"`
	Violations  []FoundViolation `json:"violations"`
	Incidental  map[string]int   `json:"incidental"`
	Exhaustive  bool             `json:"exhaustive"`
	Error       string           `json:"error,omitempty"`
	Rule        string           `json:"rule"`
	Components  Components       `json:"components"`
	Assumptions []string         `json:"assumptions"`
	Level       string           `json:"level"`
}

type FoundViolation struct {
	Fingerprint string `json:"fingerprint"`
	Rule        string `json:"rule"`
	Detail      string `json:"detail"`
	Replay      string `json:"replay"`
	Known       string `json:"known,omitempty"` // the "what" of the matching known finding
	Count       int    `json:"count"`
	FirstIdx    int    `json:"first_idx"`
}

type WorkerOpts struct {
	Prop      string
	Tier      string
	Seed      uint64
	Worker    int
	Of        int
	Budget    time.Duration
	MaxRuns   int
	ReplayDir string
	KnownPath string
	Out       string
	From      int // first run index (debugging order dependence)
}

func runSeed(seed uint64, prop string, worker, idx int) uint64 {
	h := sha256.Sum256([]byte(fmt.Sprintf("%d|%s|%d|%d", seed, prop, worker, idx)))
	var x uint64
	for i := 0; i < 8; i++ {
		x = x<<8 | uint64(h[i])
	}
	return x
}

func RunWorker(o WorkerOpts) *WorkerResult {
	ck := checks[o.Prop]
	res := &WorkerResult{Property: o.Prop, Tier: o.Tier, Seed: o.Seed, Worker: o.Worker, Classes: map[string]int{}, Probes: map[string]int{},
		Faults: map[string]int{}, Policies: map[string]int{}, Incidental: map[string]int{}, Violations: []FoundViolation{}}
	if ck == nil {
		res.Error = "unknown property " + o.Prop
		return res
	}
	res.Rule, res.Components, res.Assumptions, res.Level = ck.Rule, ck.Components, ck.Assumptions, ck.Level
	known := loadKnown(o.KnownPath)
	start := time.Now()
	seen := map[string]*FoundViolation{}
	perRule := map[string]int{}
	safeOracle := func(p *Plan) (v *Verdict) {
		defer func() {
			if r := recover(); r != nil {
				pj, _ := json.Marshal(p)
				v = &Verdict{Infra: []string{fmt.Sprintf("oracle panicked: %v at %s plan=%s", r, oracleSite(debug.Stack()), pj)}}
			}
		}()
		return ck.Oracle(p)
	}
	handle := func(p *Plan, rs uint64) {
		if SpinLeaked {
			return // see SpinLeaked: nothing further is started in this process
		}
		p.normalize()
		v := safeOracle(p)
		res.Evaluations++
		res.Worlds += v.Runs
		res.Steps += v.Steps
		res.SimMs += v.SimMs
		res.AdjPairs += v.AdjPairs
		res.Policies[p.Sched.Policy]++
		for k, n := range v.Probes {
			res.Probes[k] += n
		}
		for k, n := range v.Faults {
			res.Faults[k] += n
		}
		for _, s := range v.Incidental {
			res.Incidental[s]++
		}
		if len(v.Infra) > 0 && res.Error == "" {
			pj, _ := json.Marshal(p)
			res.Error = "harness fault: " + strings.Join(v.Infra, "; ") + " plan=" + string(pj)
		}
		if v.Nontrivial {
			res.Classes[v.Class+"|"+v.SchedHash]++
		} else {
			res.Trivial++
		}
		if len(res.Samples) < 3 && v.Nontrivial && res.Evaluations%7 == 1 {
			res.Samples = append(res.Samples, p)
		}
		for i := range v.Violations {
			viol := &v.Violations[i]
			fp := viol.Fingerprint(o.Prop)
			if fv, ok := seen[fp]; ok {
				fv.Count++
				continue
			}
			fv := &FoundViolation{Fingerprint: fp, Rule: viol.Rule, Detail: viol.Detail, Count: 1, FirstIdx: res.Evaluations - 1}
			seen[fp] = fv
			if k := known.match(o.Prop, viol); k != nil {
				fv.Known = k.What
			}
			perRule[viol.Rule]++
			sp, sv, n := p, viol, 0
			// enough minimised examples of this kind already: record this one as found, unshrunk
			if !ck.NoShrink && len(seen) <= 40 && perRule[viol.Rule] <= 4 && !SpinLeaked {
				sp, sv, n = shrinkPlan(ck, p, o.Prop, viol)
			}
			rf := &ReplayFile{Property: o.Prop, Fingerprint: fp, VerifSeed: o.Seed, RunSeed: fmt.Sprintf("%016x", rs), Tier: o.Tier,
				Plan: sp, Violation: *sv, ShrinkRuns: n}
			// record the trace and hash of the minimised run
			fin := v
			if !SpinLeaked {
				fin = ck.Oracle(sp)
			}
			rf.EventHash = fin.SchedHash
			rf.Trace = tail(fin.Trace, 60)
			path, err := writeReplay(o.ReplayDir, rf)
			if err != nil {
				res.Error = err.Error()
			}
			fv.Replay = path
			fv.Detail = sv.Detail
		}
	}
	if ck.Directed != nil && o.Worker == 0 {
		for _, p := range ck.Directed(o.Tier) {
			handle(p, 0)
		}
	}
	if ck.Exhaustive != nil && o.Tier == "thorough" {
		all := ck.Exhaustive(o.Tier)
		for i, p := range all {
			if i%o.Of == o.Worker {
				handle(p, 0)
			}
		}
		res.Exhaustive = true
	}
	for idx := o.From; ; idx++ {
		if o.MaxRuns > 0 && idx >= o.From+o.MaxRuns {
			break
		}
		if time.Since(start) > o.Budget || SpinLeaked {
			break
		}
		rs := runSeed(o.Seed, o.Prop, o.Worker, idx)
		c := NewChooser(rs, 1)
		p := ck.Gen(c, o.Tier)
		if p == nil {
			continue
		}
		handle(p, rs)
	}
	for _, fv := range seen {
		res.Violations = append(res.Violations, *fv)
	}
	sort.Slice(res.Violations, func(i, j int) bool { return res.Violations[i].Fingerprint < res.Violations[j].Fingerprint })
	if len(res.Samples) == 0 && res.Evaluations > 0 {
		// make sure evidence always has a sample
		c := NewChooser(runSeed(o.Seed, o.Prop, o.Worker, 0), 1)
		if p := ck.Gen(c, o.Tier); p != nil {
			res.Samples = append(res.Samples, p)
		}
	}
	res.WallS = time.Since(start).Seconds()
	return res
}

func tail(ev []Event, n int) []Event {
	if len(ev) <= n {
		return ev
	}
	return ev[len(ev)-n:]
}

// Replay executes a replay file and reports whether the same fingerprint is reached.
func Replay(path string) (ok bool, msg string) {
	b, err := os.ReadFile(path)
	if err != nil {
		return false, err.Error()
	}
	var rf ReplayFile
	if err := json.Unmarshal(b, &rf); err != nil {
		return false, err.Error()
	}
	ck := checks[rf.Property]
	if ck == nil {
		return false, "unknown property " + rf.Property
	}
	v := ck.Oracle(rf.Plan)
	for i := range v.Violations {
		if v.Violations[i].Fingerprint(rf.Property) == rf.Fingerprint {
			hashNote := "event-hash identical"
			if rf.EventHash != "" && v.SchedHash != rf.EventHash && !ck.UnstableHash {
				hashNote = fmt.Sprintf("event-hash differs (%s vs recorded %s)", v.SchedHash, rf.EventHash)
				return false, "fingerprint reproduced but " + hashNote
			}
			return true, fmt.Sprintf("reproduced %s: %s [%s]", rf.Fingerprint, v.Violations[i].Detail, hashNote)
		}
	}
	var got []string
	for i := range v.Violations {
		got = append(got, v.Violations[i].Fingerprint(rf.Property))
	}
	return false, fmt.Sprintf("did not reproduce %s; got %v", rf.Fingerprint, got)
}

// HashRuns supports the determinism self-test: for n generated plans it returns "index scheduleHash violations".
func HashRuns(prop string, seed uint64, n int) []string {
	ck := checks[prop]
	var out []string
	for i := 0; i < n; i++ {
		c := NewChooser(runSeed(seed, prop, 0, i), 1)
		p := ck.Gen(c, "quick")
		if p == nil {
			out = append(out, fmt.Sprintf("%d nil", i))
			continue
		}
		v := ck.Oracle(p)
		var fps []string
		for j := range v.Violations {
			fps = append(fps, v.Violations[j].Fingerprint(prop))
		}
		out = append(out, fmt.Sprintf("%d %s steps=%d %v", i, v.SchedHash, v.Steps, fps))
	}
	return out
}

// Show runs a replay file's plan once and prints what both peers saw (triage aid).
func Show(path string) string {
	b, err := os.ReadFile(path)
	if err != nil {
		return err.Error()
	}
	var rf ReplayFile
	if err := json.Unmarshal(b, &rf); err != nil {
		return err.Error()
	}
	var sb strings.Builder
	pj, _ := json.Marshal(rf.Plan)
	fmt.Fprintf(&sb, "PLAN %s\n", pj)
	r := Run(rf.Plan)
	if r.BuildErr != "" {
		fmt.Fprintf(&sb, "BUILD ERROR %s\n", r.BuildErr)
		return sb.String()
	}
	for _, e := range r.World.Log {
		fmt.Fprintf(&sb, "  %4d %-12s %-22s %s\n", e.Seq, e.Task, e.Op, e.Arg)
	}
	for _, st := range r.RPCs {
		fmt.Fprintf(&sb, "RPC %s rejected=%q panic=%q\n", st.name, st.Rejected, st.ServePanic)
		if st.req != nil {
			fmt.Fprintf(&sb, " request: %s %s %s cl=%d hdr=%v body=%x\n", st.req.Method, st.req.URL.RequestURI(), st.req.Proto, st.req.ContentLength, st.req.Header, st.rendered.Body)
		}
		for _, bo := range st.Backend {
			oj, _ := json.Marshal(bo)
			fmt.Fprintf(&sb, " backend: %s\n   body=%x\n", oj, bo.Body)
		}
		if st.rw != nil {
			fmt.Fprintf(&sb, " response: status=%d hdr=%v trailers=%v\n   body=%x\n   body(text)=%q\n", st.rw.Status, st.rw.Snap, st.rw.Trailers, st.rw.Visible, truncate(string(st.rw.Visible), 400))
		}
		if st.Outcome != nil {
			fmt.Fprintf(&sb, " outcome: %s\n", st.Outcome.canon())
		}
	}
	fmt.Fprintf(&sb, "deadlock=%v %v stepcap=%v pool=%v misuse=%v taskfails=%v\n", r.Deadlock, r.World.DeadlockAt, r.StepCap, r.Env.pool.Violations, r.Env.Misuse, r.TaskFails)
	v := checks[rf.Property].Oracle(rf.Plan)
	for _, x := range v.Violations {
		fmt.Fprintf(&sb, "VIOLATION %s: %s\n", x.Fingerprint(rf.Property), x.Detail)
	}
	return sb.String()
}

// DebugShrink: generate plan idx of a worker's stream, shrink its first violation and re-evaluate the result repeatedly (order-dependence hunt).
func DebugShrink(prop string, seed uint64, worker, idx int) string {
	ck := checks[prop]
	var sb strings.Builder
	c := NewChooser(runSeed(seed, prop, worker, idx), 1)
	p := ck.Gen(c, "quick")
	v := ck.Oracle(p)
	fmt.Fprintf(&sb, "original: %d violations\n", len(v.Violations))
	if len(v.Violations) == 0 {
		return sb.String()
	}
	viol := &v.Violations[0]
	fp := viol.Fingerprint(prop)
	for i := 0; i < 6; i++ {
		v2 := ck.Oracle(p)
		fmt.Fprintf(&sb, "re-evaluation %d of original plan: %d violations\n", i, len(v2.Violations))
	}
	sp, _, n := shrinkPlan(ck, p, prop, viol)
	fmt.Fprintf(&sb, "shrunk in %d runs\n", n)
	for i := 0; i < 4; i++ {
		v2 := ck.Oracle(sp)
		hit := false
		for j := range v2.Violations {
			if v2.Violations[j].Fingerprint(prop) == fp {
				hit = true
			}
		}
		fmt.Fprintf(&sb, "re-evaluation %d of shrunk plan: reproduced=%v\n", i, hit)
	}
	rt := sp.clone()
	v3 := ck.Oracle(rt)
	fmt.Fprintf(&sb, "after JSON round trip: %d violations\n", len(v3.Violations))
	pj, _ := json.Marshal(sp)
	fmt.Fprintf(&sb, "PLAN %s\n", pj)
	return sb.String()
}

func oracleSite(stack []byte) string {
	var out []string
	for _, line := range strings.Split(string(stack), "\n") {
		line = strings.TrimSpace(line)
		if strings.Contains(line, "internal/verifsim/") && strings.Contains(line, ".go:") {
			if i := strings.IndexByte(line, ' '); i > 0 {
				line = line[:i]
			}
			out = append(out, line[strings.LastIndex(line, "/")+1:])
			if len(out) >= 5 {
				break
			}
		}
	}
	return strings.Join(out, " < ")
}
