// Command vsimw is the simulation worker: one process, one seed stream.
package main

import (
	"encoding/json"
	"flag"
	"fmt"
	"os"
	"time"

	verifsim "connectrpc.com/vanguard/internal/verifsim"
)

func main() {
	if len(os.Args) < 2 {
		fmt.Fprintln(os.Stderr, "usage: vsimw run|replay|selftest ...")
		os.Exit(2)
	}
	switch os.Args[1] {
	case "run":
		fs := flag.NewFlagSet("run", flag.ExitOnError)
		var o verifsim.WorkerOpts
		var budget float64
		fs.StringVar(&o.Prop, "prop", "", "property id")
		fs.StringVar(&o.Tier, "tier", "quick", "quick|thorough")
		fs.Uint64Var(&o.Seed, "seed", 1, "VERIF_SEED")
		fs.IntVar(&o.Worker, "worker", 0, "worker index")
		fs.IntVar(&o.Of, "of", 1, "number of workers")
		fs.Float64Var(&budget, "budget", 10, "seconds")
		fs.IntVar(&o.MaxRuns, "max-runs", 0, "max generated plans (0: budget only)")
		fs.IntVar(&o.From, "from", 0, "first run index")
		fs.StringVar(&o.ReplayDir, "replay-dir", "/verif/replays", "")
		fs.StringVar(&o.KnownPath, "known", "/verif/known_findings.json", "")
		fs.StringVar(&o.Out, "out", "", "result file")
		_ = fs.Parse(os.Args[2:])
		o.Budget = time.Duration(budget * float64(time.Second))
		res := verifsim.RunWorker(o)
		b, _ := json.Marshal(res)
		if o.Out != "" {
			if err := os.WriteFile(o.Out, b, 0o644); err != nil {
				fmt.Fprintln(os.Stderr, err)
				os.Exit(2)
			}
		} else {
			fmt.Println(string(b))
		}
		if res.Error != "" {
			fmt.Fprintln(os.Stderr, res.Error)
			os.Exit(2)
		}
	case "replay":
		ok, msg := verifsim.Replay(os.Args[2])
		fmt.Println(msg)
		if !ok {
			os.Exit(3)
		}
		os.Exit(1) // a reproduced violation
	case "debugshrink":
		var seed uint64 = 1
		var worker, idx int
		fmt.Sscan(os.Args[3], &worker)
		fmt.Sscan(os.Args[4], &idx)
		fmt.Print(verifsim.DebugShrink(os.Args[2], seed, worker, idx))
	case "show":
		fmt.Print(verifsim.Show(os.Args[2]))
	case "hash":
		// determinism self-test: print the event hash of N generated plans
		fs := flag.NewFlagSet("hash", flag.ExitOnError)
		prop := fs.String("prop", "C08", "")
		seed := fs.Uint64("seed", 1, "")
		n := fs.Int("n", 50, "")
		_ = fs.Parse(os.Args[2:])
		for _, line := range verifsim.HashRuns(*prop, *seed, *n) {
			fmt.Println(line)
		}
	default:
		fmt.Fprintln(os.Stderr, "unknown command")
		os.Exit(2)
	}
}
