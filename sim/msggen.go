package verifsim

import (
	"math"
	"strings"

	"google.golang.org/protobuf/proto"
	"google.golang.org/protobuf/reflect/protoreflect"
)

// MsgGenOpts constrains generated messages to what every codec on the path can carry.
type MsgGenOpts struct {
	MaxDepth    int
	MaxBytes    int  // max length of one bytes/string field
	SingleEntry bool // at most one entry per map (binary map order cannot change a compressed length)
	NoNaN       bool
	PathSafe    bool // strings usable as URL path variables without ambiguity ("" excluded)
}

var edgeStrings = []string{"", "a", "hello world", "ünïcödé", "日本語", "\U0001F600 emoji", "q\"uo\\te", "per%cent", "sl/ash", "a+b c&d=e?f#g",
	"line\nbreak\ttab", "\u0000nul", "<script>&amp;", "col:on", "%2F", "%25", "{brace}", "*", "**", " sep", "é", "trailing ", " leading", "\x7f",
	"\ufeffbom", "null", "true", "123", "-1", "1e5", "NaN", "[]", "{}"}

func genString(c *Chooser, o *MsgGenOpts) string {
	if c.Prob(0.6) {
		s := edgeStrings[c.Intn(len(edgeStrings))]
		if o.PathSafe && s == "" {
			return "x"
		}
		return s
	}
	n := c.Intn(12)
	if c.Prob(0.1) {
		n = c.Intn(maxInt(o.MaxBytes, 1))
	}
	var sb strings.Builder
	for i := 0; i < n; i++ {
		switch c.Intn(6) {
		case 0:
			sb.WriteRune(rune(0x20 + c.Intn(0x5f)))
		case 1:
			sb.WriteRune(rune(0xa0 + c.Intn(0x500)))
		case 2:
			sb.WriteRune(rune(0x4e00 + c.Intn(0x500)))
		case 3:
			sb.WriteRune(rune(0x1F300 + c.Intn(0x200)))
		case 4:
			sb.WriteByte("%/:?#[]@!$&'()*+,;= "[c.Intn(20)])
		default:
			sb.WriteByte(byte('a' + c.Intn(26)))
		}
	}
	if o.PathSafe && sb.Len() == 0 {
		return "y"
	}
	return sb.String()
}

func maxInt(a, b int) int {
	if a > b {
		return a
	}
	return b
}

func genBytes(c *Chooser, o *MsgGenOpts) []byte {
	switch c.Intn(5) {
	case 0:
		return []byte{}
	case 1:
		return []byte{0}
	case 2:
		return []byte{0xff, 0xfe, 0xfb, 0xef, 0xbf}
	case 3:
		return c.Bytes(c.Intn(maxInt(o.MaxBytes, 1)))
	}
	return c.Bytes(c.Intn(16))
}

var edgeFloats = []float64{0, 1, -1, 0.5, 1e-7, 1e21, 123456789.125, math.MaxFloat32, math.SmallestNonzeroFloat32, math.MaxFloat64, math.SmallestNonzeroFloat64,
	math.Inf(1), math.Inf(-1), math.NaN(), -0.0, 3.4028235e38, 1.0000001, 16777217}

func genScalar(c *Chooser, fd protoreflect.FieldDescriptor, o *MsgGenOpts) protoreflect.Value {
	switch fd.Kind() {
	case protoreflect.BoolKind:
		return protoreflect.ValueOfBool(c.Bool())
	case protoreflect.Int32Kind, protoreflect.Sint32Kind, protoreflect.Sfixed32Kind:
		return protoreflect.ValueOfInt32(Pick(c, int32(0), 1, -1, math.MaxInt32, math.MinInt32, int32(c.Uint64())))
	case protoreflect.Int64Kind, protoreflect.Sint64Kind, protoreflect.Sfixed64Kind:
		return protoreflect.ValueOfInt64(Pick(c, int64(0), 1, -1, math.MaxInt64, math.MinInt64, 1<<53+1, int64(c.Uint64())))
	case protoreflect.Uint32Kind, protoreflect.Fixed32Kind:
		return protoreflect.ValueOfUint32(Pick(c, uint32(0), 1, math.MaxUint32, uint32(c.Uint64())))
	case protoreflect.Uint64Kind, protoreflect.Fixed64Kind:
		return protoreflect.ValueOfUint64(Pick(c, uint64(0), 1, math.MaxUint64, 1<<63, c.Uint64()))
	case protoreflect.FloatKind:
		f := edgeFloats[c.Intn(len(edgeFloats))]
		if o.NoNaN && (math.IsNaN(f) || math.IsInf(f, 0)) {
			f = 1.5
		}
		return protoreflect.ValueOfFloat32(float32(f))
	case protoreflect.DoubleKind:
		f := edgeFloats[c.Intn(len(edgeFloats))]
		if c.Prob(0.3) {
			f = math.Float64frombits(c.Uint64())
			if math.IsNaN(f) {
				f = math.NaN() // only the canonical NaN survives JSON
			}
		}
		if o.NoNaN && (math.IsNaN(f) || math.IsInf(f, 0)) {
			f = 2.5
		}
		return protoreflect.ValueOfFloat64(f)
	case protoreflect.StringKind:
		return protoreflect.ValueOfString(genString(c, o))
	case protoreflect.BytesKind:
		return protoreflect.ValueOfBytes(genBytes(c, o))
	case protoreflect.EnumKind:
		vals := fd.Enum().Values()
		return protoreflect.ValueOfEnum(vals.Get(c.Intn(vals.Len())).Number())
	}
	return protoreflect.Value{}
}

// genMessage fills a new message of the given descriptor with seeded edge-heavy content.
func genMessage(c *Chooser, md protoreflect.MessageDescriptor, o *MsgGenOpts, depth int) proto.Message {
	m := newMessageFor(md)
	fillMessage(c, m.ProtoReflect(), o, depth)
	return m
}

func fillMessage(c *Chooser, m protoreflect.Message, o *MsgGenOpts, depth int) {
	md := m.Descriptor()
	switch md.FullName() {
	case "google.protobuf.Timestamp":
		m.Set(md.Fields().ByName("seconds"), protoreflect.ValueOfInt64(Pick(c, int64(0), 1, -62135596800, 253402300799, 1700000000, int64(c.Intn(2000000000)))))
		m.Set(md.Fields().ByName("nanos"), protoreflect.ValueOfInt32(Pick(c, int32(0), 1, 999999999, 500000000, 120000000, int32(c.Intn(1000000000)))))
		return
	case "google.protobuf.Duration":
		s := Pick(c, int64(0), 1, -1, 315576000000, -315576000000, int64(c.Intn(100000)))
		n := Pick(c, int32(0), 1, 999999999, 500000000, int32(c.Intn(1000000000)))
		if s < 0 || (s == 0 && c.Bool()) {
			n = -n // (between -1s and 0 the sign is carried by the nanos alone)
		}
		m.Set(md.Fields().ByName("seconds"), protoreflect.ValueOfInt64(s))
		m.Set(md.Fields().ByName("nanos"), protoreflect.ValueOfInt32(n))
		return
	case "google.protobuf.FieldMask":
		l := m.Mutable(md.Fields().ByName("paths")).List()
		for i, n := 0, c.Intn(3); i < n; i++ {
			l.Append(protoreflect.ValueOfString(Pick(c, "name", "book.title", "a_b.c_d", "x", "update_time")))
		}
		return
	case "google.protobuf.Value":
		fs := md.Fields()
		switch c.Intn(5) {
		case 0:
			m.Set(fs.ByName("null_value"), protoreflect.ValueOfEnum(0))
		case 1:
			m.Set(fs.ByName("number_value"), protoreflect.ValueOfFloat64(Pick(c, 0.0, 1.5, -2, 1e20)))
		case 2:
			m.Set(fs.ByName("string_value"), protoreflect.ValueOfString(genString(c, o)))
		case 3:
			m.Set(fs.ByName("bool_value"), protoreflect.ValueOfBool(c.Bool()))
		default:
			if depth >= o.MaxDepth {
				m.Set(fs.ByName("bool_value"), protoreflect.ValueOfBool(true))
			} else {
				fillMessage(c, m.Mutable(fs.ByName("list_value")).Message(), o, depth+1)
			}
		}
		return
	case "google.protobuf.ListValue":
		fd := md.Fields().ByName("values")
		l := m.Mutable(fd).List()
		for i, n := 0, c.Intn(3); i < n; i++ {
			v := l.NewElement()
			fillMessage(c, v.Message(), o, depth+1)
			l.Append(v)
		}
		return
	case "google.protobuf.Struct":
		fd := md.Fields().ByName("fields")
		mp := m.Mutable(fd).Map()
		n := c.Intn(3)
		if o.SingleEntry && n > 1 {
			n = 1
		}
		for i := 0; i < n; i++ {
			v := mp.NewValue()
			fillMessage(c, v.Message(), o, depth+1)
			mp.Set(protoreflect.ValueOfString(Pick(c, "k", "key two", "ü")).MapKey(), v)
		}
		return
	case "google.protobuf.Any":
		return // left empty: resolvable Any payloads are generated explicitly where needed
	}
	fields := md.Fields()
	if depth == 0 && c.Prob(0.12) {
		return // the empty message: zero bytes in proto, "{}" in JSON
	}
	density := Pick(c, 0.05, 0.15, 0.4)
	if depth > 0 {
		density = 0.1
	}
	usedOneof := map[string]bool{}
	for i := 0; i < fields.Len(); i++ {
		fd := fields.Get(i)
		if !c.Prob(density) {
			continue
		}
		if oo := fd.ContainingOneof(); oo != nil && !oo.IsSynthetic() {
			if usedOneof[string(oo.Name())] {
				continue
			}
			usedOneof[string(oo.Name())] = true
		}
		switch {
		case fd.IsMap():
			mp := m.Mutable(fd).Map()
			n := 1 + c.Intn(3)
			if o.SingleEntry {
				n = 1
			}
			for j := 0; j < n; j++ {
				k := genScalar(c, fd.MapKey(), o)
				var v protoreflect.Value
				if fd.MapValue().Message() != nil {
					if depth >= o.MaxDepth {
						continue
					}
					v = mp.NewValue()
					fillMessage(c, v.Message(), o, depth+1)
				} else {
					v = genScalar(c, fd.MapValue(), o)
				}
				mp.Set(k.MapKey(), v)
			}
		case fd.IsList():
			l := m.Mutable(fd).List()
			for j, n := 0, 1+c.Intn(3); j < n; j++ {
				if fd.Message() != nil {
					if depth >= o.MaxDepth {
						continue
					}
					v := l.NewElement()
					fillMessage(c, v.Message(), o, depth+1)
					l.Append(v)
				} else {
					l.Append(genScalar(c, fd, o))
				}
			}
		case fd.Message() != nil:
			if depth >= o.MaxDepth {
				continue
			}
			fillMessage(c, m.Mutable(fd).Message(), o, depth+1)
		default:
			m.Set(fd, genScalar(c, fd, o))
		}
	}
}

// msgEqualBytes compares two canonical encodings as messages (NaN equals NaN).
func msgEqualBytes(md protoreflect.MessageDescriptor, a, b []byte) bool {
	if len(a) == 0 && len(b) == 0 {
		return true
	}
	ma, mb := newMessageFor(md), newMessageFor(md)
	if proto.Unmarshal(a, ma) != nil || proto.Unmarshal(b, mb) != nil {
		return false
	}
	dropNullValues(ma.ProtoReflect())
	dropNullValues(mb.ProtoReflect())
	return proto.Equal(ma, mb)
}

func protoreflectBytes(b []byte) protoreflect.Value { return protoreflect.ValueOfBytes(b) }

// dropNullValues clears google.protobuf.Value fields holding JSON null: protojson writes an unset Value field as null when
// unpopulated fields are emitted and reads null back as a set Value, so "unset" and "null" are one thing on a JSON leg.
func dropNullValues(m protoreflect.Message) {
	m.Range(func(fd protoreflect.FieldDescriptor, v protoreflect.Value) bool {
		if fd.Message() == nil || fd.IsMap() {
			return true
		}
		if fd.IsList() {
			if fd.Message().FullName() != "google.protobuf.Value" {
				l := v.List()
				for i := 0; i < l.Len(); i++ {
					dropNullValues(l.Get(i).Message())
				}
			}
			return true
		}
		if fd.Message().FullName() == "google.protobuf.Value" {
			vm := v.Message()
			if f := vm.Descriptor().Fields().ByName("null_value"); vm.Has(f) || vm.WhichOneof(vm.Descriptor().Oneofs().ByName("kind")) == nil {
				m.Clear(fd)
			}
			return true
		}
		dropNullValues(v.Message())
		return true
	})
}

// msgEqualLoose additionally treats a set-but-empty message field like an unset one (REST bodies and query strings cannot tell them apart).
func msgEqualLoose(md protoreflect.MessageDescriptor, a, b []byte) bool {
	ma, mb := newMessageFor(md), newMessageFor(md)
	if proto.Unmarshal(a, ma) != nil || proto.Unmarshal(b, mb) != nil {
		return false
	}
	for _, m := range []protoreflect.Message{ma.ProtoReflect(), mb.ProtoReflect()} {
		dropNullValues(m)
		dropEmptyMessages(m)
	}
	return proto.Equal(ma, mb)
}

func dropEmptyMessages(m protoreflect.Message) {
	m.Range(func(fd protoreflect.FieldDescriptor, v protoreflect.Value) bool {
		if fd.Message() == nil || fd.IsMap() || fd.IsList() {
			return true
		}
		sub := v.Message()
		dropEmptyMessages(sub)
		empty := true
		sub.Range(func(protoreflect.FieldDescriptor, protoreflect.Value) bool { empty = false; return false })
		if empty {
			switch fd.Message().FullName() {
			case "google.protobuf.Empty", "google.protobuf.Timestamp", "google.protobuf.Duration", "google.protobuf.FieldMask", "google.protobuf.StringValue", "google.protobuf.BytesValue",
				"google.protobuf.BoolValue", "google.protobuf.Int32Value", "google.protobuf.UInt32Value", "google.protobuf.Int64Value", "google.protobuf.UInt64Value",
				"google.protobuf.FloatValue", "google.protobuf.DoubleValue":
				return true // a zero wrapper / timestamp is a value of its own in JSON, not "nothing"
			}
			m.Clear(fd)
		}
		return true
	})
}
