package verifsim

import (
	"fmt"
)

// C14: concurrent RPCs on one Transcoder are isolated from one another; pooled buffers and
// compressors are never visible to two owners at once.

func c14Oracle(p *Plan) *Verdict {
	v := &Verdict{}
	n := len(p.RPCs)
	facts := map[string]string{"pool": p.Pool.Policy}
	v.Class = fmt.Sprintf("n=%d/pool=%s/%s", n, p.Pool.Policy, p.Sched.Policy)
	conc := Run(p)
	v.absorb(conc)
	if conc.World != nil {
		v.Trace = conc.World.Log
	}
	if conc.BuildErr != "" || n == 0 {
		return v
	}
	v.Nontrivial = n > 1
	duplex := 0
	for i := range p.RPCs {
		if p.RPCs[i].Backend.Mode == "duplex" {
			duplex++
		}
		v.fault("rpc-" + p.RPCs[i].histKind())
	}
	if duplex > 0 {
		v.probe("full-duplex-rpc")
	}
	if conc.Env.pool.CrossRPCReuse > 0 {
		v.probe("buffer-reused-across-rpcs")
	}
	if conc.Deadlock || conc.StepCap {
		v.violate("hang-under-concurrency", facts, "the concurrent world did not terminate: %v", conc.World.DeadlockAt)
		return v
	}
	for _, s := range conc.Env.pool.Violations {
		f := copyFacts(facts)
		f["kind"] = problemClass(s)
		v.violate("pool-ownership", f, "buffer pool: %s", s)
	}
	for _, s := range conc.Env.Misuse {
		f := copyFacts(facts)
		f["kind"] = problemClass(s)
		v.violate("compressor-ownership", f, "%s", s)
	}
	for i := 0; i < n; i++ {
		if len(p.RPCs[i].LibFaults) > 0 {
			v.probe("lib-fault-rpc-not-compared")
			continue
		}
		if p.RPCs[i].Backend.CloseBody == "writer-early" {
			// whether the reading goroutine finishes before the other one closes the body is the schedule's choice: this RPC's
			// own outcome may differ from its solo run; ownership, panics, races and the other RPCs are still judged
			v.probe("early-close-rpc-not-compared")
			continue
		}
		if p.RPCs[i].Relaxed && requestMalformed(p, i) {
			// one side fails while the other is active: whatever the interleaving, the client must get a well-formed response
			// with exactly one terminal disposition, responses being a prefix of those sent, and never a success
			st := conc.RPCs[i]
			v.probe("duplex-one-sided-fault")
			if st.Rejected != "" || st.Outcome == nil {
				continue
			}
			sf := scenarioFacts(p, i)
			f := map[string]string{"form": sf["form"], "target": sf["target"], "rpath": sf["rpath"], "mode": "duplex-fault"}
			if sf["path"] == "passthrough" {
				continue
			}
			if st.ServePanic != "" {
				f["site"] = firstSite(st.ServePanicStack)
				v.violate("panic", f, "ServeHTTP panicked: %s at %s", st.ServePanic, st.ServePanicStack)
				continue
			}
			o := st.Outcome
			if o.sawSuccess() {
				body, clean, _ := effectiveRequestBody(&p.Config, &p.RPCs[i])
				_, md := planMethod(p, i)
				rs := refParseStream(enveloped(p.RPCs[i].Client.Form), requestFlag, p.RPCs[i].Client.Codec, p.RPCs[i].Client.Compression, body, clean, md.Input())
				v.violate("duplex-fault-became-success", f, "RPC %d: the request stream is malformed (%s) and the response side was active, yet the client saw success: %s; backend: undecodable=%v readerr=%q msgs=%d",
					i, rs.Malformed, outcomeBrief(o), st.backend().Undecodable, st.backend().ReadErr, len(st.backend().Msgs))
			}
			if len(o.Problems) > 0 || o.Kind == "invalid" {
				// one defect, many symptoms: the fingerprint names the situation, the detail lists the symptoms
				v.violate("duplex-fault-malformed-response", map[string]string{"mode": "duplex-fault"},
					"%s client, %s target: the request side failed while the response side was writing; the client's response is not well-formed: %v", sf["form"], sf["target"], o.Problems)
			}
			continue
		}
		solo := p.clone()
		solo.RPCs = solo.RPCs[i : i+1]
		solo.Concurrent = false
		solo.Sched = SchedPlan{Policy: "seq"}
		solo.Pool = PoolPlan{Policy: "lifo"}
		sr := Run(solo)
		v.absorb(sr)
		if sr.BuildErr != "" || sr.Deadlock || sr.StepCap {
			continue
		}
		a, b := conc.RPCs[i], sr.RPCs[0]
		if a.Rejected != "" || b.Rejected != "" {
			continue
		}
		va, vb := probeView(a), probeView(b)
		if va != vb {
			sf := scenarioFacts(solo, 0)
			f := copyFacts(facts)
			f["form"], f["target"], f["path"], f["mode"] = sf["form"], sf["target"], sf["path"], p.RPCs[i].Backend.Mode
			v.violate("not-isolated", f, "RPC %d of %d behaves differently when run concurrently with the others than when run alone:\nconcurrent: %s\nalone:      %s", i, n, truncate(va, 900), truncate(vb, 900))
			break
		}
	}
	return v
}

func init() {
	register(&Check{
		ID:    "C14",
		Level: "exploration",
		Rule: "N = 2..6 RPCs of mixed protocols, codecs and compressions served concurrently by one Transcoder and one set of pools; each RPC has a client task and a server task, full-duplex RPCs add a handler reader task and a handler writer task; " +
			"about half of the non-duplex RPCs carry a byte-offset fault (cut, corrupt or undecodable payload, protocol-breaking backend, handler panic, client gone). The scheduler (uniform / PCT with 1-3 change points / sticky / starve) chooses the next task at every seam call " +
			"(each underlying read, write, flush, codec call, compressor call, pool operation). oracles: (1) each RPC's canonical outcome and backend view equal those of the same RPC run alone on a fresh Transcoder; " +
			"(2) pool ownership: no double release, no write into a released buffer, no use of a compressor outside Reset..Close. distinct = (N, pool policy, scheduling policy, schedule hash); " +
			"reach is also counted as cross-task event adjacency pairs; non-trivial = N >= 2",
		Gen: func(c *Chooser, tier string) *Plan {
			svc := genService(c, "sim")
			svc.MaxMsg = 1 << 20
			n := c.Range(2, 6)
			var rpcs []RPCPlan
			for i := 0; i < n; i++ {
				o := ScenOpts{MaxMsgs: 3, MaxBytes: 300, Segment: true}
				dup := c.Prob(0.25)
				if dup {
					o.Methods = []string{"Bidi"}
					o.Forms = []string{FormGRPC, FormGRPCWeb, FormConnectStream}
					o.NoErr = true
				}
				r := genRPC(c, o)
				if r == nil {
					continue
				}
				if dup {
					r.Backend.Mode = "duplex"
					if c.Prob(0.3) {
						r.Backend.CloseBody = "writer-early"
					}
					if c.Prob(0.5) && len(r.Client.Msgs) > 0 {
						// a request-side failure while the response side is busy
						r.Relaxed = true
						k := c.Intn(len(r.Client.Msgs))
						switch c.Intn(4) {
						case 0:
							r.Client.Msgs[k].RawPayload = c.Bytes(c.Range(1, 20))
						case 1, 2:
							f := Pick(c, 2, 4, 0x80, 0xff)
							r.Client.Msgs[k].Flags = &f
						default:
							r.Client.Msgs[k].LenDelta = Pick(c, 1, 7, 1<<22)
						}
						if len(r.Backend.Resp.Msgs) == 0 {
							r.Backend.Resp.Msgs = []MsgSpec{smallMsg(), smallMsg()}
						}
						r.Backend.Resp.WriteMode, r.Backend.Resp.WriteSizes = "sizes", []int{Pick(c, 1, 2, 3, 5, 7)}
						// a backend that shrugs off its failed read (a proxy, a handler that only logs it) and ends with OK: what the
						// transcoder itself found wrong with the request - an invalid envelope, which it rejects on every path - must
						// still be the outcome. (Garbage payloads and short streams are for the backend to notice on the re-framing path.)
						r.Backend.Lenient = r.Client.Msgs[k].Flags != nil && c.Prob(0.6)
					}
				} else if c.Prob(0.45) {
					spoil(c, r, Pick(c, "cut", "corrupt-compressed", "backend-panic", "client-gone", "backend-garbage", "end-garbage", "end-garbage", "undecodable", "corrupt-response", "bad-validation", "lib-fault"))
					// (an RPC with a failing library call is not compared with its solo run: which call is the k-th depends on
					// buffer capacities, i.e. on which recycled buffer the pool hands out; pool ownership and the other RPCs
					// are still judged)
				}
				rpcs = append(rpcs, *r)
			}
			if len(rpcs) < 2 {
				return nil
			}
			sched := Pick(c, SchedPlan{Policy: "uniform", Seed: c.Uint64()}, SchedPlan{Policy: "uniform", Seed: c.Uint64()}, SchedPlan{Policy: "pct", Seed: c.Uint64(), Param: c.Range(1, 3)},
				SchedPlan{Policy: "sticky", Seed: c.Uint64(), Param: c.Range(60, 95)}, SchedPlan{Policy: "starve", Seed: c.Uint64(), Param: c.Intn(12)})
			return &Plan{Config: ConfigPlan{Services: []ServicePlan{svc}}, RPCs: rpcs, Concurrent: true, Sched: sched,
				Pool: PoolPlan{Policy: Pick(c, "lifo", "random", "fifo"), Seed: c.Uint64(), Poison: c.Prob(0.8), Quarantine: Pick(c, 0, 0, 3)}, StepCap: 600000}
		},
		Oracle:     c14Oracle,
		Components: stdComponents,
		Assumptions: []string{"one task runs at a time: data races are not observed by this check (the race-detector mode described in DESIGN 3.5 is a separate build)",
			"only faults placed at byte offsets are injected here, so that an RPC's own outcome does not depend on the schedule"},
	})
}

// requestMalformed re-derives from the plan alone that RPC i's request stream is malformed (a shrunk plan may have lost its fault).
func requestMalformed(p *Plan, i int) bool {
	rc := &p.RPCs[i]
	_, md := planMethod(p, i)
	if md == nil {
		return false
	}
	body, clean, st := effectiveRequestBody(&p.Config, rc)
	if st.Rejected != "" {
		return false
	}
	rs := refParseStream(enveloped(rc.Client.Form), requestFlag, rc.Client.Codec, rc.Client.Compression, body, clean, md.Input())
	return rs.Malformed != ""
}
