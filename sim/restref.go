package verifsim

// Reference implementation of google.api.http: template grammar, matcher on the raw path, binder
// (request -> message) and its inverse (message -> request), written from the comment block in
// google/api/http.proto and AIP-127. Nothing here calls into the vanguard package.

import (
	"encoding/base64"
	"encoding/json"
	"fmt"
	"math"
	"net/url"
	"sort"
	"strconv"
	"strings"

	"connectrpc.com/vanguard"
	"google.golang.org/genproto/googleapis/api/annotations"
	"google.golang.org/protobuf/encoding/protojson"
	"google.golang.org/protobuf/proto"
	"google.golang.org/protobuf/reflect/protoreflect"
)

// ---------------------------------------------------------------------------------------
// templates

type refSeg struct {
	kind string // lit | star | dstar
	lit  string // decoded literal
}

type refVar struct {
	path       string // field path, proto names
	start, end int    // segment range [start,end); end == -1: to the end (contains **)
}

type refTemplate struct {
	raw        string
	segs       []refSeg
	vars       []refVar
	verb       string
	allLiteral bool
}

func pctDecode(s string, keepSlash bool) (string, bool) {
	var sb strings.Builder
	for i := 0; i < len(s); i++ {
		if s[i] != '%' {
			sb.WriteByte(s[i])
			continue
		}
		if i+2 >= len(s)+0 && i+2 > len(s)-1 {
			return "", false
		}
		v, err := strconv.ParseUint(s[i+1:i+3], 16, 8)
		if err != nil {
			return "", false
		}
		if keepSlash && v == '/' {
			sb.WriteString("%2F")
		} else {
			sb.WriteByte(byte(v))
		}
		i += 2
	}
	return sb.String(), true
}

func isLiteralChar(c byte) bool {
	return (c >= 'a' && c <= 'z') || (c >= 'A' && c <= 'Z') || (c >= '0' && c <= '9') || c == '-' || c == '_' || c == '.' || c == '~' || c == '%'
}

// parseRefTemplate returns nil, reason if the template is not in the grammar.
func parseRefTemplate(t string) (*refTemplate, string) {
	rt := &refTemplate{raw: t}
	if !strings.HasPrefix(t, "/") {
		return nil, "must start with /"
	}
	i := 1
	seenDstar := false
	seenVars := map[string]bool{}
	var parseSegments func(inVar bool) string
	parseLiteral := func() (string, string) {
		j := i
		for j < len(t) && isLiteralChar(t[j]) {
			j++
		}
		if j == i {
			return "", "empty literal"
		}
		d, ok := pctDecode(t[i:j], false)
		if !ok {
			return "", "bad escape in literal"
		}
		i = j
		return d, ""
	}
	parseSegments = func(inVar bool) string {
		for {
			if seenDstar {
				return "** must be the last segment"
			}
			switch {
			case strings.HasPrefix(t[i:], "**"):
				rt.segs = append(rt.segs, refSeg{kind: "dstar"})
				seenDstar = true
				i += 2
			case strings.HasPrefix(t[i:], "*"):
				rt.segs = append(rt.segs, refSeg{kind: "star"})
				i++
			case strings.HasPrefix(t[i:], "{"):
				if inVar {
					return "nested variable"
				}
				i++
				j := i
				for j < len(t) && (t[j] == '.' || t[j] == '_' || (t[j] >= 'a' && t[j] <= 'z') || (t[j] >= 'A' && t[j] <= 'Z') || (t[j] >= '0' && t[j] <= '9')) {
					j++
				}
				fp := t[i:j]
				if fp == "" || strings.HasPrefix(fp, ".") || strings.HasSuffix(fp, ".") || strings.Contains(fp, "..") || (fp[0] >= '0' && fp[0] <= '9') {
					return "bad field path"
				}
				for _, part := range strings.Split(fp, ".") {
					if part == "" || (part[0] >= '0' && part[0] <= '9') {
						return "bad field path"
					}
				}
				if seenVars[fp] {
					return "duplicate variable"
				}
				seenVars[fp] = true
				i = j
				v := refVar{path: fp, start: len(rt.segs)}
				if i < len(t) && t[i] == '=' {
					i++
					if r := parseSegments(true); r != "" {
						return r
					}
				} else {
					rt.segs = append(rt.segs, refSeg{kind: "star"})
				}
				if i >= len(t) || t[i] != '}' {
					return "expected }"
				}
				i++
				v.end = len(rt.segs)
				if seenDstar {
					v.end = -1
				}
				rt.vars = append(rt.vars, v)
			default:
				lit, r := parseLiteral()
				if r != "" {
					return r
				}
				rt.segs = append(rt.segs, refSeg{kind: "lit", lit: lit})
			}
			if i < len(t) && t[i] == '/' {
				i++
				continue
			}
			return ""
		}
	}
	if r := parseSegments(false); r != "" {
		return nil, r
	}
	if i < len(t) && t[i] == ':' {
		i++
		lit, r := parseLiteral()
		if r != "" {
			return nil, "bad verb"
		}
		rt.verb = lit
	}
	if i != len(t) {
		return nil, "trailing characters"
	}
	rt.allLiteral = true
	for _, s := range rt.segs {
		if s.kind != "lit" {
			rt.allLiteral = false
		}
	}
	return rt, ""
}

type refMatch struct {
	ok       bool
	captures map[string]string // field path -> captured value (decoded)
	abstain  string
}

// matchRaw matches the raw (still percent-encoded) path against the template.
func (rt *refTemplate) matchRaw(rawPath string) refMatch {
	if !strings.HasPrefix(rawPath, "/") {
		return refMatch{}
	}
	parts := strings.Split(rawPath[1:], "/")
	last := parts[len(parts)-1]
	verb := ""
	if strings.Count(last, ":") > 1 {
		return refMatch{abstain: "several ':' in the last segment"}
	}
	if k := strings.LastIndex(last, ":"); k >= 0 {
		verb = last[k+1:]
		parts[len(parts)-1] = last[:k]
		if verb == "" {
			return refMatch{abstain: "trailing ':'"}
		}
	}
	dv, ok := pctDecode(verb, false)
	if !ok {
		return refMatch{abstain: "bad escape"}
	}
	if dv != rt.verb {
		return refMatch{}
	}
	n := len(rt.segs)
	hasDstar := n > 0 && rt.segs[n-1].kind == "dstar"
	if hasDstar {
		if len(parts) < n-1 {
			return refMatch{}
		}
	} else if len(parts) != n {
		return refMatch{}
	}
	for i, s := range rt.segs {
		if s.kind == "dstar" {
			break
		}
		if i >= len(parts) {
			break
		}
		d, ok := pctDecode(parts[i], false)
		if !ok {
			return refMatch{abstain: "bad escape"}
		}
		switch s.kind {
		case "lit":
			if d != s.lit {
				return refMatch{}
			}
		case "star":
			if parts[i] == "" {
				return refMatch{abstain: "empty segment against *"}
			}
		}
	}
	if hasDstar && len(parts) == n-1 {
		return refMatch{abstain: "** would match zero segments"} // the grammar says zero or more; left open here
	}
	m := refMatch{ok: true, captures: map[string]string{}}
	for _, v := range rt.vars {
		end := v.end
		if end == -1 {
			end = len(parts)
		}
		multi := v.end == -1 || end-v.start > 1
		var vals []string
		for _, p := range parts[v.start:end] {
			d, ok := pctDecode(p, multi)
			if !ok {
				return refMatch{abstain: "bad escape"}
			}
			vals = append(vals, d)
		}
		m.captures[v.path] = strings.Join(vals, "/")
	}
	return m
}

// ---------------------------------------------------------------------------------------
// route table

type refBinding struct {
	method   protoreflect.MethodDescriptor
	httpMeth string // GET, POST, ..., or custom kind ("*" matches all)
	tmpl     *refTemplate
	body     string
	respBody string
	svc      *ServicePlan
}

func (b *refBinding) respField() protoreflect.FieldDescriptor {
	if b.respBody == "" || b.respBody == "*" {
		return nil
	}
	return b.method.Output().Fields().ByName(protoreflect.Name(b.respBody))
}
func (b *refBinding) bodyField() protoreflect.FieldDescriptor {
	if b.body == "" || b.body == "*" {
		return nil
	}
	return b.method.Input().Fields().ByName(protoreflect.Name(b.body))
}
func isHTTPBodyMsg(md protoreflect.MessageDescriptor) bool {
	return md != nil && md.FullName() == "google.api.HttpBody"
}
func (b *refBinding) respIsHTTPBody() bool {
	if f := b.respField(); f != nil {
		return !f.IsList() && !f.IsMap() && isHTTPBodyMsg(f.Message())
	}
	return isHTTPBodyMsg(b.method.Output())
}
func (b *refBinding) reqIsHTTPBody() bool {
	if f := b.bodyField(); f != nil {
		return !f.IsList() && !f.IsMap() && isHTTPBodyMsg(f.Message())
	}
	return b.body == "*" && isHTTPBodyMsg(b.method.Input())
}

type refRoute = refBinding

func ruleBindings(md protoreflect.MethodDescriptor, rule *annotations.HttpRule, svc *ServicePlan) ([]*refBinding, string) {
	var out []*refBinding
	one := func(r *annotations.HttpRule) string {
		b := &refBinding{method: md, body: r.GetBody(), respBody: r.GetResponseBody(), svc: svc}
		var t string
		switch p := r.GetPattern().(type) {
		case *annotations.HttpRule_Get:
			b.httpMeth, t = "GET", p.Get
		case *annotations.HttpRule_Put:
			b.httpMeth, t = "PUT", p.Put
		case *annotations.HttpRule_Post:
			b.httpMeth, t = "POST", p.Post
		case *annotations.HttpRule_Delete:
			b.httpMeth, t = "DELETE", p.Delete
		case *annotations.HttpRule_Patch:
			b.httpMeth, t = "PATCH", p.Patch
		case *annotations.HttpRule_Custom:
			b.httpMeth, t = p.Custom.GetKind(), p.Custom.GetPath()
		default:
			return "no pattern"
		}
		tm, reason := parseRefTemplate(t)
		if tm == nil {
			return "template " + t + ": " + reason
		}
		b.tmpl = tm
		out = append(out, b)
		return ""
	}
	if r := one(rule); r != "" {
		return nil, r
	}
	for _, ab := range rule.GetAdditionalBindings() {
		if r := one(ab); r != "" {
			return nil, r
		}
	}
	return out, ""
}

// refTable builds the reference route table of a configuration.
func refTable(cfg *ConfigPlan) []*refBinding {
	var out []*refBinding
	for i := range cfg.Services {
		sp := &cfg.Services[i]
		sch := getSchema(sp.Schema)
		if sch == nil {
			continue
		}
		ms := sch.Service.Methods()
		for j := 0; j < ms.Len(); j++ {
			md := ms.Get(j)
			if rule, ok := proto.GetExtension(md.Options(), annotations.E_Http).(*annotations.HttpRule); ok && rule != nil && rule.GetPattern() != nil {
				bs, _ := ruleBindings(md, rule, sp)
				out = append(out, bs...)
			}
		}
	}
	for i := range cfg.Rules {
		rp := &cfg.Rules[i]
		for j := range cfg.Services {
			sp := &cfg.Services[j]
			sch := getSchema(sp.Schema)
			if sch == nil {
				continue
			}
			ms := sch.Service.Methods()
			for k := 0; k < ms.Len(); k++ {
				md := ms.Get(k)
				if selectorMatches(rp.Selector, string(md.FullName())) {
					bs, _ := ruleBindings(md, rp.toProto(), sp)
					out = append(out, bs...)
				}
			}
		}
	}
	return out
}

// selectorMatches: an exact method name, or a '*'-terminated prefix ending at a name boundary.
func selectorMatches(sel, full string) bool {
	if strings.HasSuffix(sel, "*") {
		p := strings.TrimSuffix(sel, "*")
		if p == "" {
			return true
		}
		return strings.HasSuffix(p, ".") && strings.HasPrefix(full, p)
	}
	return sel == full
}

type refResolution struct {
	kind     string // dispatch | notfound | notallowed | abstain
	binding  *refBinding
	captures map[string]string
	allow    []string
	cands    []*refBinding // when several wildcard templates match: any of them is acceptable
	why      string
}

func sameTemplate(a, b *refTemplate) bool {
	if len(a.segs) != len(b.segs) || a.verb != b.verb {
		return false
	}
	for i := range a.segs {
		if a.segs[i].kind != b.segs[i].kind || a.segs[i].lit != b.segs[i].lit {
			return false
		}
	}
	return true
}

// resolve is the reference routing decision for a REST request.
func resolveRef(table []*refBinding, httpMethod, rawPath string) refResolution {
	type hit struct {
		b *refBinding
		m refMatch
	}
	var hits []hit
	for _, b := range table {
		m := b.tmpl.matchRaw(rawPath)
		if m.abstain != "" {
			return refResolution{kind: "abstain", why: m.abstain}
		}
		if m.ok {
			hits = append(hits, hit{b, m})
		}
	}
	if len(hits) == 0 {
		return refResolution{kind: "notfound"}
	}
	// literal over wildcard
	var lit []hit
	for _, h := range hits {
		if h.b.tmpl.allLiteral {
			lit = append(lit, h)
		}
	}
	pool := hits
	if len(lit) > 0 {
		pool = lit
	}
	oneTemplate := true
	for _, h := range pool[1:] {
		if !sameTemplate(pool[0].b.tmpl, h.b.tmpl) {
			oneTemplate = false
		}
	}
	var withMethod []hit
	for _, h := range pool {
		if h.b.httpMeth == httpMethod || h.b.httpMeth == "*" {
			withMethod = append(withMethod, h)
		}
	}
	if oneTemplate {
		if len(withMethod) >= 1 {
			// exact method wins over the custom wildcard kind
			for _, h := range withMethod {
				if h.b.httpMeth == httpMethod {
					return refResolution{kind: "dispatch", binding: h.b, captures: h.m.captures}
				}
			}
			return refResolution{kind: "dispatch", binding: withMethod[0].b, captures: withMethod[0].m.captures}
		}
		var allow []string
		for _, h := range pool {
			allow = append(allow, h.b.httpMeth)
		}
		sort.Strings(allow)
		return refResolution{kind: "notallowed", allow: allow}
	}
	// several different templates match: the statement only orders literal over wildcard
	var cands []*refBinding
	for _, h := range pool {
		cands = append(cands, h.b)
	}
	return refResolution{kind: "abstain", why: "several wildcard templates match", cands: cands}
}

// ---------------------------------------------------------------------------------------
// binder: request -> message

type bindError struct {
	msg     string
	unknown bool // an unknown parameter name, not an ill-typed value: any failure is acceptable
}

func (e *bindError) Error() string { return e.msg }

func fieldByPath(md protoreflect.MessageDescriptor, path string, jsonNames bool) ([]protoreflect.FieldDescriptor, bool) {
	var out []protoreflect.FieldDescriptor
	cur := md
	parts := strings.Split(path, ".")
	for i, p := range parts {
		if cur == nil {
			return nil, false
		}
		var fd protoreflect.FieldDescriptor
		if jsonNames {
			fd = cur.Fields().ByJSONName(p)
		}
		if fd == nil {
			fd = cur.Fields().ByName(protoreflect.Name(p))
		}
		if fd == nil {
			return nil, false
		}
		out = append(out, fd)
		if i < len(parts)-1 {
			if fd.IsList() || fd.IsMap() || fd.Message() == nil {
				return nil, false
			}
			cur = fd.Message()
		}
	}
	return out, true
}

// refScalarJSON turns a URL parameter string into the JSON literal protojson expects for the field, or fails.
func refScalarJSON(fd protoreflect.FieldDescriptor, s string) (string, error) {
	q := func(x string) string { b, _ := json.Marshal(x); return string(b) }
	isInt := func(x string, signed bool) bool {
		if x == "" {
			return false
		}
		i := 0
		if x[0] == '-' {
			if !signed {
				return false
			}
			i = 1
		}
		if i >= len(x) {
			return false
		}
		for ; i < len(x); i++ {
			if x[i] < '0' || x[i] > '9' {
				return false
			}
		}
		return true
	}
	switch fd.Kind() {
	case protoreflect.BoolKind:
		if s == "true" || s == "false" {
			return s, nil
		}
		return "", &bindError{msg: "not a bool"}
	case protoreflect.Int32Kind, protoreflect.Sint32Kind, protoreflect.Sfixed32Kind:
		if !isInt(s, true) {
			return "", &bindError{msg: "not an integer"}
		}
		if _, err := strconv.ParseInt(s, 10, 32); err != nil {
			return "", &bindError{msg: "out of range"}
		}
		return s, nil
	case protoreflect.Int64Kind, protoreflect.Sint64Kind, protoreflect.Sfixed64Kind:
		if !isInt(s, true) {
			return "", &bindError{msg: "not an integer"}
		}
		if _, err := strconv.ParseInt(s, 10, 64); err != nil {
			return "", &bindError{msg: "out of range"}
		}
		return q(s), nil
	case protoreflect.Uint32Kind, protoreflect.Fixed32Kind:
		if !isInt(s, false) {
			return "", &bindError{msg: "not an unsigned integer"}
		}
		if _, err := strconv.ParseUint(s, 10, 32); err != nil {
			return "", &bindError{msg: "out of range"}
		}
		return s, nil
	case protoreflect.Uint64Kind, protoreflect.Fixed64Kind:
		if !isInt(s, false) {
			return "", &bindError{msg: "not an unsigned integer"}
		}
		if _, err := strconv.ParseUint(s, 10, 64); err != nil {
			return "", &bindError{msg: "out of range"}
		}
		return q(s), nil
	case protoreflect.FloatKind, protoreflect.DoubleKind:
		if s == "NaN" || s == "Infinity" || s == "-Infinity" {
			return q(s), nil
		}
		bits := 64
		if fd.Kind() == protoreflect.FloatKind {
			bits = 32
		}
		f, err := strconv.ParseFloat(s, bits)
		if err != nil || math.IsInf(f, 0) || math.IsNaN(f) {
			return "", &bindError{msg: "not a number"}
		}
		return q(s), nil // protojson accepts numbers in strings
	case protoreflect.StringKind:
		return q(s), nil
	case protoreflect.BytesKind:
		t := strings.TrimRight(s, "=")
		if _, err := base64.RawStdEncoding.DecodeString(t); err != nil {
			if _, err2 := base64.RawURLEncoding.DecodeString(t); err2 != nil {
				return "", &bindError{msg: "not base64"}
			}
		}
		return q(s), nil
	case protoreflect.EnumKind:
		if fd.Enum().Values().ByName(protoreflect.Name(s)) != nil {
			return q(s), nil
		}
		if n, err := strconv.ParseInt(s, 10, 32); err == nil {
			return strconv.FormatInt(n, 10), nil
		}
		if fd.Enum().FullName() == "google.protobuf.NullValue" && s == "null" {
			return "null", nil
		}
		return "", &bindError{msg: "unknown enum value"}
	case protoreflect.MessageKind:
		switch fd.Message().FullName() {
		case "google.protobuf.Timestamp", "google.protobuf.Duration", "google.protobuf.FieldMask", "google.protobuf.StringValue", "google.protobuf.BytesValue":
			return q(s), nil
		case "google.protobuf.BoolValue", "google.protobuf.Int32Value", "google.protobuf.UInt32Value", "google.protobuf.Int64Value", "google.protobuf.UInt64Value",
			"google.protobuf.FloatValue", "google.protobuf.DoubleValue":
			return refScalarJSON(fd.Message().Fields().ByName("value"), s)
		}
	}
	return "", &bindError{msg: "field cannot be a URL parameter"}
}

// setParam sets (or appends to) the field at path from the parameter string.
func refSetParam(msg protoreflect.Message, fds []protoreflect.FieldDescriptor, s string) error {
	cur := msg
	for _, fd := range fds[:len(fds)-1] {
		cur = cur.Mutable(fd).Message()
	}
	fd := fds[len(fds)-1]
	if fd.IsMap() {
		return &bindError{msg: "map fields cannot be URL parameters"}
	}
	lit, err := refScalarJSON(fd, s)
	if err != nil {
		return err
	}
	// decode through protojson into a scratch message holding only this field
	scratch := cur.New()
	doc := fmt.Sprintf(`{%q:%s}`, fd.JSONName(), lit)
	if fd.IsList() {
		doc = fmt.Sprintf(`{%q:[%s]}`, fd.JSONName(), lit)
	}
	if err := (protojson.UnmarshalOptions{}).Unmarshal([]byte(doc), scratch.Interface()); err != nil {
		return &bindError{msg: "value does not fit the field: " + err.Error()}
	}
	if fd.IsList() {
		l := cur.Mutable(fd).List()
		sl := scratch.Get(fd).List()
		for i := 0; i < sl.Len(); i++ {
			l.Append(sl.Get(i))
		}
		return nil
	}
	cur.Set(fd, scratch.Get(fd))
	return nil
}

// refBind computes the request message of a REST request under binding b. A *bindError means invalid_argument.
func refBind(b *refBinding, captures map[string]string, rawQuery string, contentType string, body []byte, discardUnknown bool) (proto.Message, error) {
	msg := newMessageFor(b.method.Input())
	m := msg.ProtoReflect()
	switch {
	case b.body == "":
		if len(body) > 0 {
			return nil, &bindError{msg: "body not allowed"}
		}
	case b.body == "*":
		if isHTTPBodyMsg(b.method.Input()) {
			m.Set(m.Descriptor().Fields().ByName("content_type"), protoreflect.ValueOfString(contentType))
			m.Set(m.Descriptor().Fields().ByName("data"), protoreflect.ValueOfBytes(body))
		} else if len(body) > 0 {
			if err := (protojson.UnmarshalOptions{DiscardUnknown: true}).Unmarshal(body, msg); err != nil {
				return nil, &bindError{msg: "body: " + err.Error()}
			}
		}
	default:
		fd := b.bodyField()
		if fd == nil {
			return nil, fmt.Errorf("binding names unknown body field %q", b.body)
		}
		switch {
		case !fd.IsList() && !fd.IsMap() && isHTTPBodyMsg(fd.Message()):
			sub := m.Mutable(fd).Message()
			sub.Set(sub.Descriptor().Fields().ByName("content_type"), protoreflect.ValueOfString(contentType))
			sub.Set(sub.Descriptor().Fields().ByName("data"), protoreflect.ValueOfBytes(body))
		case len(body) == 0:
		case fd.Message() != nil && !fd.IsList() && !fd.IsMap():
			if err := (protojson.UnmarshalOptions{DiscardUnknown: true}).Unmarshal(body, m.Mutable(fd).Message().Interface()); err != nil {
				return nil, &bindError{msg: "body: " + err.Error()}
			}
		default:
			doc := append([]byte(fmt.Sprintf(`{%q:`, fd.JSONName())), body...)
			doc = append(doc, '}')
			if err := (protojson.UnmarshalOptions{DiscardUnknown: true}).Unmarshal(doc, msg); err != nil {
				return nil, &bindError{msg: "body: " + err.Error()}
			}
		}
	}
	// path variables, in template order
	for _, v := range b.tmpl.vars {
		fds, ok := fieldByPath(b.method.Input(), v.path, false)
		if !ok {
			return nil, fmt.Errorf("binding names unknown variable %q", v.path)
		}
		if err := refSetParam(m, fds, captures[v.path]); err != nil {
			return nil, &bindError{msg: fmt.Sprintf("path variable %s=%q: %v", v.path, captures[v.path], err)}
		}
	}
	// query parameters
	q, err := url.ParseQuery(rawQuery)
	if err != nil {
		return nil, &bindError{msg: "query: " + err.Error()}
	}
	for _, k := range sortedKeys(q) {
		fds, ok := fieldByPath(b.method.Input(), k, true)
		if !ok {
			if discardUnknown {
				continue
			}
			return nil, &bindError{msg: "unknown query parameter " + k, unknown: true}
		}
		for _, val := range q[k] {
			if err := refSetParam(m, fds, val); err != nil {
				return nil, &bindError{msg: fmt.Sprintf("query parameter %s=%q: %v", k, val, err)}
			}
		}
	}
	return msg, nil
}

// ---------------------------------------------------------------------------------------
// inverse binder: message -> request (used to generate REST client requests)

type restRequest struct {
	Method, Path, RawQuery string
	Body                   []byte
	ContentType            string
	HasBody                bool
}

func escapeSegment(s string, multi bool) string {
	var sb strings.Builder
	for i := 0; i < len(s); i++ {
		c := s[i]
		if (c >= 'a' && c <= 'z') || (c >= 'A' && c <= 'Z') || (c >= '0' && c <= '9') || c == '-' || c == '_' || c == '.' || c == '~' {
			sb.WriteByte(c)
		} else {
			fmt.Fprintf(&sb, "%%%02X", c)
		}
	}
	return sb.String()
}

// refParamString renders a scalar (or WKT scalar) field value as a URL parameter string.
func refParamString(fd protoreflect.FieldDescriptor, v protoreflect.Value) (string, bool) {
	switch fd.Kind() {
	case protoreflect.BoolKind:
		return strconv.FormatBool(v.Bool()), true
	case protoreflect.Int32Kind, protoreflect.Sint32Kind, protoreflect.Sfixed32Kind, protoreflect.Int64Kind, protoreflect.Sint64Kind, protoreflect.Sfixed64Kind:
		return strconv.FormatInt(v.Int(), 10), true
	case protoreflect.Uint32Kind, protoreflect.Fixed32Kind, protoreflect.Uint64Kind, protoreflect.Fixed64Kind:
		return strconv.FormatUint(v.Uint(), 10), true
	case protoreflect.FloatKind, protoreflect.DoubleKind:
		f := v.Float()
		switch {
		case math.IsNaN(f):
			return "NaN", true
		case math.IsInf(f, 1):
			return "Infinity", true
		case math.IsInf(f, -1):
			return "-Infinity", true
		}
		bits := 64
		if fd.Kind() == protoreflect.FloatKind {
			bits = 32
		}
		return strconv.FormatFloat(f, 'g', -1, bits), true
	case protoreflect.StringKind:
		return v.String(), true
	case protoreflect.BytesKind:
		return base64.URLEncoding.EncodeToString(v.Bytes()), true
	case protoreflect.EnumKind:
		if ev := fd.Enum().Values().ByNumber(v.Enum()); ev != nil {
			return string(ev.Name()), true
		}
		return strconv.Itoa(int(v.Enum())), true
	case protoreflect.MessageKind:
		sub := v.Message()
		switch fd.Message().FullName() {
		case "google.protobuf.Timestamp", "google.protobuf.Duration", "google.protobuf.FieldMask":
			b, err := protojson.Marshal(sub.Interface())
			if err != nil {
				return "", false
			}
			var s string
			if json.Unmarshal(b, &s) != nil {
				return "", false
			}
			return s, true
		case "google.protobuf.StringValue", "google.protobuf.BytesValue", "google.protobuf.BoolValue", "google.protobuf.Int32Value", "google.protobuf.UInt32Value",
			"google.protobuf.Int64Value", "google.protobuf.UInt64Value", "google.protobuf.FloatValue", "google.protobuf.DoubleValue":
			vf := fd.Message().Fields().ByName("value")
			return refParamString(vf, sub.Get(vf))
		}
	}
	return "", false
}

func isParamField(fd protoreflect.FieldDescriptor) bool {
	if fd.IsMap() {
		return false
	}
	if fd.Kind() == protoreflect.GroupKind {
		return false
	}
	if fd.Message() == nil {
		return true
	}
	switch fd.Message().FullName() {
	case "google.protobuf.Timestamp", "google.protobuf.Duration", "google.protobuf.FieldMask", "google.protobuf.StringValue", "google.protobuf.BytesValue",
		"google.protobuf.BoolValue", "google.protobuf.Int32Value", "google.protobuf.UInt32Value", "google.protobuf.Int64Value", "google.protobuf.UInt64Value",
		"google.protobuf.FloatValue", "google.protobuf.DoubleValue":
		return true
	}
	return false
}

// refEncodeRequest renders msg as a REST request under binding b. ok=false if msg cannot be expressed under b
// (a path variable is unset or does not fit its sub-template, or a non-parameter field would have to go in the query).
func refEncodeRequest(b *refBinding, msg proto.Message, useJSONNames bool) (*restRequest, bool) {
	m := msg.ProtoReflect()
	req := &restRequest{Method: b.httpMeth}
	if req.Method == "*" {
		req.Method = "POST"
	}
	used := map[string]bool{} // top-level-or-nested field paths consumed by path / body
	// path
	segs := make([]string, len(b.tmpl.segs))
	for i, s := range b.tmpl.segs {
		if s.kind == "lit" {
			segs[i] = escapeSegment(s.lit, false)
		}
	}
	var tail []string
	for _, v := range b.tmpl.vars {
		fds, ok := fieldByPath(b.method.Input(), v.path, false)
		if !ok {
			return nil, false
		}
		cur := m
		for _, fd := range fds[:len(fds)-1] {
			if !cur.Has(fd) {
				return nil, false
			}
			cur = cur.Get(fd).Message()
		}
		fd := fds[len(fds)-1]
		if fd.IsList() || fd.IsMap() {
			return nil, false
		}
		s, ok := refParamString(fd, cur.Get(fd))
		if !ok {
			return nil, false
		}
		used[v.path] = true
		end := v.end
		multi := v.end == -1 || v.end-v.start > 1
		if !multi {
			if s == "" {
				return nil, false
			}
			segs[v.start] = escapeSegment(s, false)
			continue
		}
		parts := strings.Split(s, "/")
		if end == -1 {
			fixed := len(b.tmpl.segs) - 1 - v.start
			if len(parts) < fixed+1 {
				return nil, false
			}
			for i := 0; i < fixed; i++ {
				if seg := b.tmpl.segs[v.start+i]; seg.kind == "lit" && seg.lit != parts[i] {
					return nil, false
				}
				if parts[i] == "" {
					return nil, false
				}
				segs[v.start+i] = escapeSegment(parts[i], true)
			}
			for _, p := range parts[fixed:] {
				tail = append(tail, escapeSegment(p, true))
			}
			continue
		}
		if len(parts) != end-v.start {
			return nil, false
		}
		for i, p := range parts {
			if seg := b.tmpl.segs[v.start+i]; seg.kind == "lit" && seg.lit != p {
				return nil, false
			}
			if p == "" {
				return nil, false
			}
			segs[v.start+i] = escapeSegment(p, true)
		}
	}
	n := len(segs)
	if n > 0 && b.tmpl.segs[n-1].kind == "dstar" {
		segs = segs[:n-1]
		if len(tail) == 0 {
			return nil, false
		}
		segs = append(segs, tail...)
	}
	for i, s := range b.tmpl.segs {
		if s.kind == "star" && i < len(segs) && segs[i] == "" {
			return nil, false // a bare * outside any variable: nothing to put there
		}
	}
	req.Path = "/" + strings.Join(segs, "/")
	if b.tmpl.verb != "" {
		req.Path += ":" + escapeSegment(b.tmpl.verb, false)
	}
	// body
	switch {
	case b.body == "*":
		req.HasBody = true
		if isHTTPBodyMsg(b.method.Input()) {
			req.ContentType = m.Get(m.Descriptor().Fields().ByName("content_type")).String()
			req.Body = m.Get(m.Descriptor().Fields().ByName("data")).Bytes()
		} else {
			cp := proto.Clone(msg)
			clearPaths(cp.ProtoReflect(), used)
			req.Body, _ = protojson.Marshal(cp)
			req.ContentType = "application/json"
		}
		return req, true
	case b.body != "":
		fd := b.bodyField()
		if fd == nil {
			return nil, false
		}
		req.HasBody = true
		used[string(fd.Name())] = true
		switch {
		case !fd.IsList() && !fd.IsMap() && isHTTPBodyMsg(fd.Message()):
			sub := m.Get(fd).Message()
			req.ContentType = sub.Get(sub.Descriptor().Fields().ByName("content_type")).String()
			req.Body = sub.Get(sub.Descriptor().Fields().ByName("data")).Bytes()
		case fd.Message() != nil && !fd.IsList() && !fd.IsMap():
			req.Body, _ = protojson.Marshal(m.Get(fd).Message().Interface())
			req.ContentType = "application/json"
		default:
			whole, _ := protojson.MarshalOptions{EmitUnpopulated: true}.Marshal(msg)
			var obj map[string]json.RawMessage
			_ = json.Unmarshal(whole, &obj)
			req.Body = obj[fd.JSONName()]
			req.ContentType = "application/json"
		}
	}
	// query: every populated field not yet used must be a parameter type
	var q []string
	var walk func(prefixProto, prefixJSON string, cur protoreflect.Message) bool
	walk = func(prefixProto, prefixJSON string, cur protoreflect.Message) bool {
		ok := true
		fields := cur.Descriptor().Fields()
		for i := 0; i < fields.Len() && ok; i++ {
			fd := fields.Get(i)
			if !cur.Has(fd) {
				continue
			}
			pp := prefixProto + string(fd.Name())
			pj := prefixJSON + fd.JSONName()
			if !useJSONNames {
				pj = pp
			}
			if used[pp] {
				continue
			}
			switch {
			case isParamField(fd) && fd.IsList():
				l := cur.Get(fd).List()
				for j := 0; j < l.Len(); j++ {
					s, k := refParamString(fd, l.Get(j))
					if !k {
						return false
					}
					q = append(q, goQueryEscape(pj)+"="+goQueryEscape(s))
				}
			case isParamField(fd):
				s, k := refParamString(fd, cur.Get(fd))
				if !k {
					return false
				}
				q = append(q, goQueryEscape(pj)+"="+goQueryEscape(s))
			case fd.Message() != nil && !fd.IsList() && !fd.IsMap() && !opaqueJSONMessage(fd.Message()):
				ok = walk(pp+".", pj+".", cur.Get(fd).Message())
			default:
				return false
			}
		}
		return ok
	}
	if !walk("", "", m) {
		return nil, false
	}
	req.RawQuery = strings.Join(q, "&")
	return req, true
}

// clearPaths clears the fields named by dotted proto paths.
func clearPaths(m protoreflect.Message, paths map[string]bool) {
	for p := range paths {
		fds, ok := fieldByPath(m.Descriptor(), p, false)
		if !ok {
			continue
		}
		cur := m
		reach := true
		for _, fd := range fds[:len(fds)-1] {
			if !cur.Has(fd) {
				reach = false
				break
			}
			cur = cur.Mutable(fd).Message()
		}
		if reach {
			cur.Clear(fds[len(fds)-1])
		}
	}
}

// ---------------------------------------------------------------------------------------
// glue used by the scripted peers

// refRouteFor resolves the binding a REST client's request should reach (nil if none / abstain).
func refRouteFor(st *rpcState) *refRoute {
	if st.cfg == nil || st.req == nil {
		return nil
	}
	raw := st.orig.RequestURI
	if i := strings.IndexByte(raw, '?'); i >= 0 {
		raw = raw[:i]
	}
	res := resolveRef(refTable(st.cfg), st.orig.Method, raw)
	if res.kind != "dispatch" {
		return nil
	}
	return res.binding
}

func installRESTRefs() {
	for _, sch := range schemas {
		sch := sch
		// REST backend: decode the request the transcoder built under the reference binder
		sch.restDecode = func(obs *BackendObs, payload []byte) (proto.Message, string, string) {
			cfg := &ConfigPlan{Services: []ServicePlan{{Schema: sch.Name}}, Rules: obs.rules}
			// like any Go handler or reverse proxy: the request's URL (not the client's original request-URI) is what counts
			raw := (&url.URL{Path: obs.Path, RawPath: obs.RawPath}).EscapedPath()
			res := resolveRef(refTable(cfg), obs.Method, raw)
			if res.kind != "dispatch" {
				return nil, "", fmt.Sprintf("request %s %s does not resolve to a binding of this service (%s %s)", obs.Method, raw, res.kind, res.why)
			}
			msg, err := refBind(res.binding, res.captures, obs.RawQuery, obs.Header.Get("Content-Type"), payload, false)
			if err != nil {
				return nil, string(res.binding.method.FullName()), err.Error()
			}
			obs.binding = res.binding
			return msg, string(res.binding.method.FullName()), ""
		}
		sch.restEncodeResp = func(obs *BackendObs, data []byte) ([]byte, string) {
			b := obs.binding
			if b == nil {
				return data, ""
			}
			m := newMessageFor(b.method.Output())
			if proto.Unmarshal(data, m) != nil {
				return data, ""
			}
			return refEncodeResponse(b, m)
		}
	}
}

// refEncodeResponse renders the REST response body of msg under binding b.
func refEncodeResponse(b *refBinding, m proto.Message) ([]byte, string) {
	r := m.ProtoReflect()
	if f := b.respField(); f != nil {
		switch {
		case !f.IsList() && !f.IsMap() && isHTTPBodyMsg(f.Message()):
			sub := r.Get(f).Message()
			return sub.Get(sub.Descriptor().Fields().ByName("data")).Bytes(), sub.Get(sub.Descriptor().Fields().ByName("content_type")).String()
		case f.Message() != nil && !f.IsList() && !f.IsMap():
			out, _ := protojson.Marshal(r.Get(f).Message().Interface())
			return out, "application/json"
		default:
			whole, _ := protojson.MarshalOptions{EmitUnpopulated: true}.Marshal(m)
			var obj map[string]json.RawMessage
			_ = json.Unmarshal(whole, &obj)
			return obj[f.JSONName()], "application/json"
		}
	}
	if isHTTPBodyMsg(b.method.Output()) {
		return r.Get(r.Descriptor().Fields().ByName("data")).Bytes(), r.Get(r.Descriptor().Fields().ByName("content_type")).String()
	}
	out, _ := protojson.Marshal(m)
	return out, "application/json"
}

func alternateSchema(via string, sch *Schema) (protoreflect.ServiceDescriptor, []vanguard.ServiceOption, error) {
	return alternateSchemaImpl(via, sch)
}
