package verifsim

import (
	"fmt"

	"connectrpc.com/vanguard"
	"google.golang.org/protobuf/reflect/protoreflect"
)

// refRoute is a binding resolved by the reference router.
type refRoute struct {
	method protoreflect.MethodDescriptor
}

func (r *refRoute) respIsHTTPBody() bool                  { return false }
func (r *refRoute) respField() protoreflect.FieldDescriptor { return nil }

func refRouteFor(st *rpcState) *refRoute { return nil }

func installRESTRefs() {}

func alternateSchema(via string, sch *Schema) (protoreflect.ServiceDescriptor, []vanguard.ServiceOption, error) {
	return nil, nil, fmt.Errorf("schema provenance %q not implemented", via)
}
