package verifsim

import (
	"fmt"
	"strings"
)

// C16: streaming RPCs make progress message by message (strict ping-pong completes; deadlock = violation).

func c16Oracle(p *Plan) *Verdict {
	v := &Verdict{}
	r := Run(p)
	v.absorb(r)
	if r.World != nil {
		v.Trace = r.World.Log
	}
	full := scenarioFacts(p, 0)
	rc := &p.RPCs[0]
	flush := "handler-flushes"
	if rc.Backend.Resp.FlushEvery == 0 {
		flush = "handler-never-flushes"
	}
	facts := map[string]string{"form": full["form"], "target": full["target"], "path": full["path"], "rpath": full["rpath"], "flush": flush}
	rounds := len(rc.Client.Msgs)
	v.Class = fmt.Sprintf("%s>%s/%s/%s/%s/rounds=%d", full["form"], full["target"], full["path"], full["rpath"], flush, bucket(rounds))
	if r.BuildErr != "" || full["path"] == "passthrough" {
		return v
	}
	st := r.RPCs[0]
	if st.Rejected != "" {
		return v
	}
	v.Nontrivial = true
	v.probe("rounds-" + bucket(rounds))
	if st.ServePanic != "" {
		v.violate("panic", facts, "ServeHTTP panicked: %s at %s", st.ServePanic, st.ServePanicStack)
		return v
	}
	if r.Deadlock {
		f := copyFacts(facts)
		f["parked"] = reDigits.ReplaceAllString(strings.Join(r.World.DeadlockAt, ","), "N")
		v.violate("ping-pong-deadlock", f, "strict ping-pong stopped after %d of %d rounds: every task is parked (%v); response bytes written so far: %d, visible to the client: %d",
			st.ClientRounds, rounds, r.World.DeadlockAt, st.rw.Written, len(st.rw.Visible))
		return v
	}
	if r.StepCap {
		v.violate("no-progress", facts, "step cap reached after %d of %d rounds", st.ClientRounds, rounds)
		return v
	}
	if st.ClientRounds != rounds {
		v.violate("rounds-incomplete", facts, "only %d of %d rounds completed; outcome %s", st.ClientRounds, rounds, outcomeBrief(st.Outcome))
		return v
	}
	wantMsgs := rounds
	if rc.Backend.ServerFirst {
		wantMsgs++
		v.probe("handler-speaks-first")
	}
	if st.Outcome == nil || !st.Outcome.sawSuccess() || len(st.Outcome.Msgs) != wantMsgs {
		v.violate("ping-pong-outcome", facts, "all %d rounds completed but the outcome is %s", rounds, outcomeBrief(st.Outcome))
	}
	// bounded liveness as a measured number: scheduler steps per round and per byte moved (the step cap is the hard bound)
	if rounds > 0 {
		v.probe(fmt.Sprintf("steps-per-round-le-%d", ceilPow10(r.World.Steps()/rounds)))
	}
	return v
}

func bucket(n int) string {
	switch {
	case n <= 1:
		return "1"
	case n <= 5:
		return "2-5"
	case n <= 50:
		return "6-50"
	}
	return "51+"
}

func init() {
	register(&Check{
		ID:    "C16",
		Level: "exploration",
		Rule: "strict ping-pong on the bidirectional method: the simulated client delivers request k+1 only after it has parsed response k out of the bytes the response writer made visible (visible = flushed), " +
			"the scripted handler writes response k only after it has read request k completely (in three runs of ten the handler speaks first: it sends a message before reading anything and the client sends nothing before that message arrived; reading and writing on one goroutine, or on two as reverse proxies do); 1..50 rounds (thorough up to 500), payloads 0..64 KiB, gRPC / gRPC-Web / Connect-streaming clients x streaming targets x " +
			"same/different codec and compression, handler calling Flush itself or never, five flavours of the server's response writer (Flusher, FlushError only, wrapped with Unwrap, buffering middleware with Flush and Unwrap), all scheduling policies and read/delivery segmentations; oracle: all rounds complete and the outcome is OK; quiescence with parked tasks is a deadlock. " +
			"distinct = (form>target/request path/response path/flush mode/round bucket, schedule hash); non-trivial = the transcoder is in the data path",
		Gen: func(c *Chooser, tier string) *Plan {
			svc := genService(c, "sim")
			svc.MaxMsg = 8 << 20 // the limit is C10's subject; here every message fits
			form := Pick(c, FormGRPC, FormGRPCWeb, FormConnectStream)
			maxRounds := 50
			if tier == "thorough" {
				maxRounds = 500
			}
			rounds := Pick(c, 1, 2, 3, c.Range(1, 10), c.Range(1, maxRounds))
			cp := ClientPlan{Form: form, HTTP: 2, Service: "sim", Method: "Bidi", Codec: Pick(c, "proto", "json", "alt"), Compression: Pick(c, "", "gzip", "deflate"),
				Accept: genSubset(c, allCompressions, false), PingPong: true, RW: Pick(c, "", "", "flusherr", "unwrap", "buffering")}
			sch := getSchema("sim")
			md := sch.method("Bidi")
			big := c.Prob(0.1)
			mo := &MsgGenOpts{MaxDepth: 1, MaxBytes: 64, SingleEntry: true}
			if big {
				mo.MaxBytes = 65536
				if rounds > 12 {
					rounds = 12 // (hundreds of rounds of 64 KiB messages read a byte at a time only burn scheduler steps)
				}
			}
			var rp RespPlan
			for i := 0; i < rounds; i++ {
				cp.Msgs = append(cp.Msgs, MsgSpec{Data: canonBytes(genMessage(c, md.Input(), mo, 0)), Compressed: c.Prob(0.6)})
				rp.Msgs = append(rp.Msgs, MsgSpec{Data: canonBytes(genMessage(c, md.Output(), mo, 0)), Compressed: c.Prob(0.6)})
			}
			rp.Compression = Pick(c, "", "gzip", "deflate")
			rp.TrailerStyle = Pick(c, "announce", "prefix")
			rp.FlushEvery = Pick(c, 0, 1)
			bp := BackendPlan{Mode: "pingpong", ReadSizes: genSegSizes(c), Resp: rp, SplitReader: c.Prob(0.4)}
			if c.Prob(0.3) {
				// the conversation starts with the handler: it sends a message before reading anything, and the client waits
				// for it before sending its first (nothing may wait for a request message that has not been asked for yet)
				bp.ServerFirst = true
				bp.Resp.Msgs = append(bp.Resp.Msgs, MsgSpec{Data: canonBytes(genMessage(c, md.Output(), mo, 0)), Compressed: c.Prob(0.6)})
			}
			if big {
				for i := range bp.ReadSizes {
					bp.ReadSizes[i] *= 256
				}
			}
			cp.Deliveries = nil
			return &Plan{Config: ConfigPlan{Services: []ServicePlan{svc}}, RPCs: []RPCPlan{{Client: cp, Backend: bp}}, Sched: genSched(c), Pool: genPool(c), StepCap: 2000000}
		},
		Oracle:     c16Oracle,
		Components: stdComponents,
		Assumptions: []string{"SimRW keeps unflushed bytes invisible until Flush or handler return: the least helpful behaviour a real HTTP/2 connection may show",
			"REST and Connect unary clients are exempt by the statement"},
	})
}

func ceilPow10(n int) int {
	p := 10
	for p < n {
		p *= 10
	}
	return p
}
