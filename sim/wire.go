package verifsim

// Reference implementations of the wire protocols, written from the public specifications
// (Connect protocol, gRPC over HTTP/2, gRPC-Web, google.rpc.Status over HTTP). Nothing in this
// file calls into the vanguard package.

import (
	"bytes"
	"compress/gzip"
	"compress/zlib"
	"encoding/base64"
	"encoding/binary"
	"encoding/json"
	"errors"
	"fmt"
	"google.golang.org/protobuf/encoding/protowire"
	"google.golang.org/protobuf/types/dynamicpb"
	"io"
	"net/http"
	"sort"
	"strconv"
	"strings"
	"unicode/utf8"

	"google.golang.org/genproto/googleapis/rpc/status"
	"google.golang.org/protobuf/encoding/protojson"
	"google.golang.org/protobuf/proto"
	"google.golang.org/protobuf/reflect/protoreflect"
	"google.golang.org/protobuf/reflect/protoregistry"
	"google.golang.org/protobuf/types/known/anypb"
)

// Protocol / form names.
const (
	FormConnectUnary  = "connect-unary"
	FormConnectGet    = "connect-get"
	FormConnectStream = "connect-stream"
	FormGRPC          = "grpc"
	FormGRPCWeb       = "grpc-web"
	FormREST          = "rest"
	FormRaw           = "raw"

	ProtoConnect = "connect"
	ProtoGRPC    = "grpc"
	ProtoGRPCWeb = "grpc-web"
	ProtoREST    = "rest"
)

func formProtocol(form string) string {
	switch form {
	case FormConnectUnary, FormConnectGet, FormConnectStream:
		return ProtoConnect
	case FormGRPC:
		return ProtoGRPC
	case FormGRPCWeb:
		return ProtoGRPCWeb
	case FormREST:
		return ProtoREST
	}
	return ""
}

// ---------------------------------------------------------------------------------------
// compression (reference side): real gzip and zlib ("deflate")

func refCompress(name string, data []byte) []byte {
	var buf bytes.Buffer
	switch name {
	case "gzip":
		zw := gzip.NewWriter(&buf)
		_, _ = zw.Write(data)
		_ = zw.Close()
	case "deflate":
		zw := zlib.NewWriter(&buf)
		_, _ = zw.Write(data)
		_ = zw.Close()
	default:
		return data
	}
	return buf.Bytes()
}

// refCompressPadded is refCompress with pad empty stored blocks (5 bytes each: a sync-flush marker) in front of the data: a
// legal deflate stream of any size that inflates to the same bytes - the compressed form larger than the message.
func refCompressPadded(name string, data []byte, pad int) []byte {
	if pad <= 0 {
		return refCompress(name, data)
	}
	var buf bytes.Buffer
	type flushWriter interface {
		io.Writer
		Flush() error
		Close() error
	}
	var zw flushWriter
	switch name {
	case "gzip":
		zw = gzip.NewWriter(&buf)
	case "deflate":
		zw = zlib.NewWriter(&buf)
	default:
		return data
	}
	for i := 0; i < pad; i++ {
		_ = zw.Flush()
	}
	_, _ = zw.Write(data)
	_ = zw.Close()
	return buf.Bytes()
}

const refDecompressCap = 64 << 20

func refDecompress(name string, data []byte) ([]byte, error) {
	var r io.Reader
	switch name {
	case "gzip":
		zr, err := gzip.NewReader(bytes.NewReader(data))
		if err != nil {
			return nil, err
		}
		r = zr
	case "deflate":
		zr, err := zlib.NewReader(bytes.NewReader(data))
		if err != nil {
			return nil, err
		}
		r = zr
	case "", "identity":
		return data, nil
	default:
		return nil, fmt.Errorf("unknown compression %q", name)
	}
	out, err := io.ReadAll(io.LimitReader(r, refDecompressCap))
	if err != nil {
		return nil, err
	}
	return out, nil
}

// ---------------------------------------------------------------------------------------
// codecs (reference side)

func refMarshal(codec string, m proto.Message) ([]byte, error) {
	switch codec {
	case "proto":
		return proto.MarshalOptions{Deterministic: true}.Marshal(m)
	case "json":
		return protojson.MarshalOptions{Resolver: protoregistry.GlobalTypes}.Marshal(m)
	case "alt":
		b, err := proto.MarshalOptions{Deterministic: true}.Marshal(m)
		return append([]byte{0xA7}, b...), err
	}
	return nil, fmt.Errorf("unknown codec %q", codec)
}

func refUnmarshal(codec string, data []byte, m proto.Message) error {
	switch codec {
	case "proto":
		return proto.UnmarshalOptions{Resolver: protoregistry.GlobalTypes}.Unmarshal(data, m)
	case "json":
		return protojson.UnmarshalOptions{Resolver: protoregistry.GlobalTypes}.Unmarshal(data, m)
	case "alt":
		if len(data) == 0 || data[0] != 0xA7 {
			return errors.New("alt codec: missing marker")
		}
		return proto.UnmarshalOptions{Resolver: protoregistry.GlobalTypes}.Unmarshal(data[1:], m)
	}
	return fmt.Errorf("unknown codec %q", codec)
}

// canonBytes is the comparison form of a message.
func canonBytes(m proto.Message) []byte {
	b, _ := proto.MarshalOptions{Deterministic: true}.Marshal(m)
	if _, dyn := m.(*dynamicpb.Message); dyn {
		// dynamic messages marshal their fields in Go map order: put the top-level fields in field-number order
		// (the dynamic types used here nest only generated messages)
		b = sortTopLevelFields(b)
	}
	return b
}

func sortTopLevelFields(b []byte) []byte {
	type fld struct {
		num protowire.Number
		raw []byte
	}
	var fs []fld
	for rest := b; len(rest) > 0; {
		num, typ, n := protowire.ConsumeTag(rest)
		if n < 0 {
			return b
		}
		m := protowire.ConsumeFieldValue(num, typ, rest[n:])
		if m < 0 {
			return b
		}
		fs = append(fs, fld{num, rest[:n+m]})
		rest = rest[n+m:]
	}
	sort.SliceStable(fs, func(i, j int) bool { return fs[i].num < fs[j].num })
	out := make([]byte, 0, len(b))
	for _, f := range fs {
		out = append(out, f.raw...)
	}
	return out
}

// ---------------------------------------------------------------------------------------
// envelopes

func envelope(flags byte, payload []byte) []byte {
	out := make([]byte, 5+len(payload))
	out[0] = flags
	binary.BigEndian.PutUint32(out[1:5], uint32(len(payload)))
	copy(out[5:], payload)
	return out
}

type frame struct {
	Flags   byte
	Payload []byte
	Start   int // offset of the prefix in the stream
}

// splitFrames parses as many complete frames as buf holds. rest is the unparsed tail.
func splitFrames(buf []byte) (frames []frame, rest []byte) {
	off := 0
	for len(buf)-off >= 5 {
		n := int(binary.BigEndian.Uint32(buf[off+1 : off+5]))
		if len(buf)-off-5 < n {
			break
		}
		frames = append(frames, frame{Flags: buf[off], Payload: buf[off+5 : off+5+n], Start: off})
		off += 5 + n
	}
	return frames, buf[off:]
}

// ---------------------------------------------------------------------------------------
// errors

type Detail struct {
	Type  string `json:"type"`
	Value []byte `json:"value"`
}

type ErrSpec struct {
	Code    int      `json:"code"`
	Msg     string   `json:"msg"`
	Details []Detail `json:"details,omitempty"`
}

var codeNames = []string{"ok", "canceled", "unknown", "invalid_argument", "deadline_exceeded", "not_found",
	"already_exists", "permission_denied", "resource_exhausted", "failed_precondition", "aborted", "out_of_range",
	"unimplemented", "internal", "unavailable", "data_loss", "unauthenticated"}

func codeName(c int) string {
	if c >= 1 && c < len(codeNames) {
		return codeNames[c]
	}
	return "code_" + strconv.Itoa(c)
}

func codeFromName(s string) (int, bool) {
	for i, n := range codeNames {
		if i > 0 && n == s {
			return i, true
		}
	}
	if strings.HasPrefix(s, "code_") {
		n, err := strconv.Atoi(strings.TrimPrefix(s, "code_"))
		if err == nil {
			return n, true
		}
	}
	return 0, false
}

// Published table: RPC code -> HTTP status (Connect unary and google.rpc.Code / REST agree).
var refHTTPFromCode = map[int]int{0: 200, 1: 499, 2: 500, 3: 400, 4: 504, 5: 404, 6: 409, 7: 403, 8: 429,
	9: 400, 10: 409, 11: 400, 12: 501, 13: 500, 14: 503, 15: 500, 16: 401}

// Published table: bare HTTP status -> RPC code.
func refCodeFromHTTP(st int) int {
	switch st {
	case 400:
		return 13
	case 401:
		return 16
	case 403:
		return 7
	case 404:
		return 12
	case 429, 502, 503, 504:
		return 14
	}
	return 2
}

func grpcPctEncode(s string) string {
	var sb strings.Builder
	for i := 0; i < len(s); i++ {
		c := s[i]
		if c < 0x20 || c > 0x7e || c == '%' {
			fmt.Fprintf(&sb, "%%%02X", c)
		} else {
			sb.WriteByte(c)
		}
	}
	return sb.String()
}

func grpcPctDecode(s string) (string, bool) {
	var sb strings.Builder
	for i := 0; i < len(s); i++ {
		if s[i] == '%' {
			if i+2 >= len(s)+0 && i+2 > len(s)-1 {
				return "", false
			}
			v, err := strconv.ParseUint(s[i+1:i+3], 16, 8)
			if err != nil {
				return "", false
			}
			sb.WriteByte(byte(v))
			i += 2
		} else {
			sb.WriteByte(s[i])
		}
	}
	return sb.String(), true
}

func statusProto(e *ErrSpec) *status.Status {
	st := &status.Status{Code: int32(e.Code), Message: e.Msg}
	for _, d := range e.Details {
		st.Details = append(st.Details, &anypb.Any{TypeUrl: "type.googleapis.com/" + d.Type, Value: d.Value})
	}
	return st
}

// jsonExpressible drops the details whose type cannot be resolved: a google.rpc.Status in JSON (the REST error
// representation) has no way to carry them.
func jsonExpressible(e *ErrSpec) *ErrSpec {
	if e == nil {
		return nil
	}
	out := &ErrSpec{Code: e.Code, Msg: e.Msg}
	for _, d := range e.Details {
		if _, err := protoregistry.GlobalTypes.FindMessageByName(protoreflect.FullName(d.Type)); err == nil {
			out.Details = append(out.Details, d)
		}
	}
	return out
}

func errFromStatusProto(st *status.Status) *ErrSpec {
	e := &ErrSpec{Code: int(st.GetCode()), Msg: st.GetMessage()}
	for _, d := range st.GetDetails() {
		e.Details = append(e.Details, Detail{Type: strings.TrimPrefix(d.GetTypeUrl(), "type.googleapis.com/"), Value: d.GetValue()})
	}
	return e
}

func decodeB64Any(s string) ([]byte, error) {
	s = strings.TrimRight(s, "=")
	if b, err := base64.RawStdEncoding.DecodeString(s); err == nil {
		return b, nil
	}
	return base64.RawURLEncoding.DecodeString(s)
}

// grpc trailers (in a header map) -> outcome. ok=false if malformed.
func parseGRPCStatus(h http.Header) (e *ErrSpec, present bool, problem string) {
	vals := h.Values("Grpc-Status")
	if len(vals) == 0 {
		return nil, false, ""
	}
	if len(vals) > 1 {
		return &ErrSpec{Code: -1, Msg: "ambiguous"}, true, fmt.Sprintf("multiple grpc-status values %q", vals)
	}
	code, err := strconv.ParseUint(vals[0], 10, 32)
	if err != nil {
		return nil, true, "non-numeric grpc-status " + strconv.Quote(vals[0])
	}
	if code == 0 {
		return nil, true, ""
	}
	msg, ok := grpcPctDecode(h.Get("Grpc-Message"))
	if !ok {
		return nil, true, "malformed grpc-message"
	}
	e = &ErrSpec{Code: int(code), Msg: msg}
	if bin := h.Get("Grpc-Status-Details-Bin"); bin != "" {
		raw, err := decodeB64Any(bin)
		if err != nil {
			return nil, true, "grpc-status-details-bin is not base64"
		}
		var st status.Status
		if err := proto.Unmarshal(raw, &st); err != nil {
			return nil, true, "grpc-status-details-bin is not a google.rpc.Status"
		}
		e2 := errFromStatusProto(&st)
		if e2.Code != e.Code {
			return e, true, fmt.Sprintf("grpc-status %d disagrees with details-bin code %d", e.Code, e2.Code)
		}
		if strings.TrimSpace(e2.Msg) != strings.TrimSpace(e.Msg) {
			return e, true, "grpc-message disagrees with details-bin message"
		}
		e.Msg = e2.Msg // header values cannot carry leading/trailing blanks; the binary status can
		e.Details = e2.Details
	}
	return e, true, ""
}

func writeGRPCStatus(h http.Header, e *ErrSpec, prefix string) {
	if e == nil {
		h.Set(prefix+"Grpc-Status", "0")
		return
	}
	h.Set(prefix+"Grpc-Status", strconv.Itoa(e.Code))
	h.Set(prefix+"Grpc-Message", grpcPctEncode(e.Msg))
	if len(e.Details) > 0 {
		b, _ := proto.Marshal(statusProto(e))
		h.Set(prefix+"Grpc-Status-Details-Bin", base64.RawStdEncoding.EncodeToString(b))
	}
}

type connectErrJSON struct {
	Code    string `json:"code"`
	Message string `json:"message,omitempty"`
	Details []struct {
		Type  string          `json:"type"`
		Value string          `json:"value"`
		Debug json.RawMessage `json:"debug,omitempty"`
	} `json:"details,omitempty"`
}

func connectErrToJSON(e *ErrSpec) []byte {
	var j connectErrJSON
	j.Code = codeName(e.Code)
	j.Message = e.Msg
	for _, d := range e.Details {
		j.Details = append(j.Details, struct {
			Type  string          `json:"type"`
			Value string          `json:"value"`
			Debug json.RawMessage `json:"debug,omitempty"`
		}{Type: d.Type, Value: base64.RawStdEncoding.EncodeToString(d.Value)})
	}
	b, _ := json.Marshal(j)
	return b
}

func connectErrFromJSON(data []byte) (*ErrSpec, string) {
	var j connectErrJSON
	if err := json.Unmarshal(data, &j); err != nil {
		return nil, "connect error body is not JSON: " + err.Error()
	}
	code, ok := codeFromName(j.Code)
	if !ok {
		return nil, "connect error has unknown code " + strconv.Quote(j.Code)
	}
	e := &ErrSpec{Code: code, Msg: j.Message}
	for _, d := range j.Details {
		v, err := decodeB64Any(d.Value)
		if err != nil {
			return nil, "connect error detail value is not base64"
		}
		e.Details = append(e.Details, Detail{Type: d.Type, Value: v})
	}
	return e, ""
}

// ---------------------------------------------------------------------------------------
// header classification

var controlExact = map[string]bool{
	"Content-Type": true, "Content-Length": true, "Content-Encoding": true, "Accept-Encoding": true, "Te": true,
	"Trailer": true, "X-Server-Timeout": true, "Host": true, "Connection": true, "Keep-Alive": true,
	"Transfer-Encoding": true, "Upgrade": true, "Date": true, "User-Agent": true, "Accept": true,
}

func isControlHeader(k string) bool {
	k = http.CanonicalHeaderKey(k)
	if controlExact[k] {
		return true
	}
	return strings.HasPrefix(k, "Connect-") || strings.HasPrefix(k, "Grpc-") || strings.HasPrefix(k, "Trailer-") ||
		strings.HasPrefix(k, http.TrailerPrefix)
}

// appHeaders returns the non-control part of h as a sorted multimap copy.
func appHeaders(h http.Header) map[string][]string {
	out := map[string][]string{}
	for _, k := range sortedKeys(h) {
		if isControlHeader(k) {
			continue
		}
		ck := http.CanonicalHeaderKey(k)
		out[ck] = append(out[ck], h[k]...)
	}
	return out
}

// ---------------------------------------------------------------------------------------
// client side: request rendering

type WireMsg struct {
	Data       []byte // codec-encoded, not yet compressed
	Compressed bool   // per-frame choice (ignored for un-enveloped forms: whole body follows Compression)
	Pad        int    // empty stored blocks in the compressed form (refCompressPadded)
}

type ClientReq struct {
	Form        string
	HTTPMajor   int
	MethodPath  string // "/pkg.Svc/Method"
	Codec       string
	Compression string   // request compression name ("" none)
	AcceptComp  []string // accepted response compressions
	Timeout     string   // raw header value in the form's own encoding ("" none)
	AppHeaders  [][2]string
	Msgs        []WireMsg
	// REST / raw
	HTTPMethod       string
	Path             string // may contain raw escapes
	RawQuery         string
	RawBody          []byte      // if non-nil, replaces the rendered body
	ExtraHdrs        [][2]string // raw control headers to add/override (hostile inputs)
	OmitProtoVersion bool
	GetBase64        *bool  // connect-get: force base64 on/off
	ContentType      string // override
	Spelling         int    // see ClientPlan.Spelling
}

type RenderedReq struct {
	Method  string
	Target  string // request-target
	Headers [][2]string
	Body    []byte
	HasBody bool
	Bounds  []int // offsets at which a frame ends (for enveloped forms); len(body) included
}

func codecContentSuffix(codec string) string { return codec }

func renderRequest(c *ClientReq) *RenderedReq {
	r := &RenderedReq{Method: "POST", Target: c.MethodPath, HasBody: true}
	add := func(k, v string) {
		if strings.HasSuffix(k, "Accept-Encoding") && len(c.AcceptComp) > 1 && v == strings.Join(c.AcceptComp, ",") {
			switch {
			case c.Spelling&4 != 0: // one header line per value
				for _, a := range c.AcceptComp {
					r.Headers = append(r.Headers, [2]string{k, a})
				}
				return
			case c.Spelling&2 != 0:
				v = strings.Join(c.AcceptComp, ", ")
			}
		}
		if k == "Content-Type" && v == "application/json" && c.Spelling&1 != 0 && (c.Form == FormConnectUnary || c.Form == FormREST) {
			v = "application/json; charset=utf-8"
		}
		r.Headers = append(r.Headers, [2]string{k, v})
	}
	frames := func() {
		for _, m := range c.Msgs {
			data := m.Data
			var fl byte
			if m.Compressed && c.Compression != "" {
				data = refCompressPadded(c.Compression, data, m.Pad)
				fl = 1
			}
			r.Body = append(r.Body, envelope(fl, data)...)
			r.Bounds = append(r.Bounds, len(r.Body))
		}
	}
	switch c.Form {
	case FormGRPC, FormGRPCWeb:
		ct := "application/grpc"
		if c.Form == FormGRPCWeb {
			ct = "application/grpc-web"
		}
		if !(c.Codec == "proto" && len(c.MethodPath)%2 == 0) { // both spellings are valid for proto
			ct += "+" + c.Codec
		}
		add("Content-Type", ct)
		if c.Form == FormGRPC {
			add("Te", "trailers")
		}
		if c.Compression != "" {
			add("Grpc-Encoding", c.Compression)
		}
		if len(c.AcceptComp) > 0 {
			add("Grpc-Accept-Encoding", strings.Join(c.AcceptComp, ","))
		}
		if c.Timeout != "" {
			add("Grpc-Timeout", c.Timeout)
		}
		frames()
	case FormConnectStream:
		add("Content-Type", "application/connect+"+c.Codec)
		if !c.OmitProtoVersion {
			add("Connect-Protocol-Version", "1")
		}
		if c.Compression != "" {
			add("Connect-Content-Encoding", c.Compression)
		}
		if len(c.AcceptComp) > 0 {
			add("Connect-Accept-Encoding", strings.Join(c.AcceptComp, ","))
		}
		if c.Timeout != "" {
			add("Connect-Timeout-Ms", c.Timeout)
		}
		frames()
	case FormConnectUnary:
		add("Content-Type", "application/"+c.Codec)
		add("Connect-Protocol-Version", "1")
		if c.Compression != "" {
			add("Content-Encoding", c.Compression)
		}
		if len(c.AcceptComp) > 0 {
			add("Accept-Encoding", strings.Join(c.AcceptComp, ","))
		}
		if c.Timeout != "" {
			add("Connect-Timeout-Ms", c.Timeout)
		}
		if len(c.Msgs) > 0 {
			r.Body = c.Msgs[0].Data
			if c.Compression != "" {
				r.Body = refCompressPadded(c.Compression, r.Body, c.Msgs[0].Pad)
			}
		}
	case FormConnectGet:
		r.Method = "GET"
		r.HasBody = false
		var data []byte
		if len(c.Msgs) > 0 {
			data = c.Msgs[0].Data
		}
		q := []string{"connect=v1", "encoding=" + queryEscape(c.Codec)}
		b64 := c.Codec != "json" || c.Compression != ""
		if c.GetBase64 != nil {
			b64 = *c.GetBase64 || c.Compression != "" || c.Codec != "json"
		}
		if c.Compression != "" {
			data = refCompress(c.Compression, data)
			q = append(q, "compression="+queryEscape(c.Compression))
		}
		if b64 {
			q = append(q, "base64=1")
			enc := base64.RawURLEncoding
			if len(data)%2 == 1 { // both padded and unpadded are legal
				enc = base64.URLEncoding
			}
			q = append(q, "message="+queryEscape(enc.EncodeToString(data)))
		} else {
			q = append(q, "message="+queryEscape(string(data)))
		}
		r.Target = c.MethodPath + "?" + strings.Join(q, "&")
		if len(c.AcceptComp) > 0 {
			add("Accept-Encoding", strings.Join(c.AcceptComp, ","))
		}
		if c.Timeout != "" {
			add("Connect-Timeout-Ms", c.Timeout)
		}
	case FormREST, FormRaw:
		r.Method = c.HTTPMethod
		r.Target = c.Path
		if c.RawQuery != "" {
			r.Target += "?" + c.RawQuery
		}
		if len(c.Msgs) > 0 {
			r.Body = c.Msgs[0].Data
			if c.Compression != "" {
				r.Body = refCompressPadded(c.Compression, r.Body, c.Msgs[0].Pad)
			}
			ct := c.ContentType
			if ct == "" {
				ct = "application/json"
			}
			add("Content-Type", ct)
		} else {
			r.HasBody = false
			if c.ContentType != "" {
				add("Content-Type", c.ContentType)
			}
		}
		if c.Compression != "" {
			add("Content-Encoding", c.Compression)
		}
		if len(c.AcceptComp) > 0 {
			add("Accept-Encoding", strings.Join(c.AcceptComp, ","))
		}
		if c.Timeout != "" {
			add("X-Server-Timeout", c.Timeout)
		}
	}
	if c.ContentType != "" && c.Form != FormREST && c.Form != FormRaw {
		for i := range r.Headers {
			if r.Headers[i][0] == "Content-Type" {
				r.Headers[i][1] = c.ContentType
			}
		}
	}
	if c.HTTPMethod != "" && c.Form != FormREST && c.Form != FormRaw {
		r.Method = c.HTTPMethod // hostile / rejection-class requests
	}
	if c.RawBody != nil {
		r.Body = c.RawBody
		r.HasBody = true
		r.Bounds = nil
	}
	for _, kv := range c.AppHeaders {
		add(kv[0], kv[1])
	}
	for _, kv := range c.ExtraHdrs {
		add(kv[0], kv[1])
	}
	return r
}

func queryEscape(s string) string {
	var sb strings.Builder
	for i := 0; i < len(s); i++ {
		c := s[i]
		if (c >= 'a' && c <= 'z') || (c >= 'A' && c <= 'Z') || (c >= '0' && c <= '9') || c == '-' || c == '_' || c == '.' || c == '~' {
			sb.WriteByte(c)
		} else {
			fmt.Fprintf(&sb, "%%%02X", c)
		}
	}
	return sb.String()
}

// ---------------------------------------------------------------------------------------
// client side: response parsing and validation (C03 validator lives here)

type Outcome struct {
	Kind            string              `json:"kind"` // ok | error | bare-http | invalid
	HTTPStatus      int                 `json:"http_status"`
	Err             *ErrSpec            `json:"err,omitempty"`
	Msgs            [][]byte            `json:"msgs,omitempty"` // canonical bytes of decoded response messages
	RawMsgs         [][]byte            `json:"-"`              // payloads as decoded from the wire (after decompression)
	Headers         map[string][]string `json:"headers,omitempty"`
	Trailers        map[string][]string `json:"trailers,omitempty"`
	Problems        []string            `json:"problems,omitempty"`
	Terminals       int                 `json:"terminals"`
	ContentType     string              `json:"content_type,omitempty"`
	RespCompression string              `json:"resp_compression,omitempty"`
	BareBody        string              `json:"bare_body,omitempty"`
	TrailersOnly    bool                `json:"trailers_only,omitempty"`
	Allow           []string            `json:"allow,omitempty"`
}

func (o *Outcome) problem(format string, args ...any) {
	o.Problems = append(o.Problems, fmt.Sprintf(format, args...))
}

type RespView struct {
	Status   int
	Header   http.Header
	Body     []byte
	Trailers http.Header
}

// msgFactory makes an empty response message for decoding.
type msgFactory func() proto.Message

// parseResponse interprets a complete response the way a strict client of the given form would.
// httpBodyResp is true when the REST response is google.api.HttpBody (raw bytes, any content-type).
func parseResponse(form string, codec string, accept []string, rv *RespView, newMsg msgFactory, httpBodyResp bool, restRespField protoreflect.FieldDescriptor) *Outcome {
	o := &Outcome{HTTPStatus: rv.Status, Headers: appHeaders(rv.Header), Trailers: map[string][]string{}}
	ct := rv.Header.Get("Content-Type")
	o.ContentType = ct
	if cl := rv.Header.Get("Content-Length"); cl != "" {
		n, err := strconv.Atoi(cl)
		if err != nil || n != len(rv.Body) {
			o.problem("Content-Length %q but body has %d bytes", cl, len(rv.Body))
		}
	}
	if len(rv.Header.Values("Content-Type")) > 1 {
		o.problem("multiple Content-Type values")
	}
	decodeMsg := func(payload []byte, codecName string) {
		m := newMsg()
		if m == nil {
			o.Msgs = append(o.Msgs, append([]byte("raw:"), payload...)) // no method known (unknown-endpoint handler): keep the bytes
			return
		}
		if err := refUnmarshal(codecName, payload, m); err != nil {
			o.problem("response message %d does not decode as %s: %v", len(o.Msgs), codecName, err)
			o.Msgs = append(o.Msgs, nil)
			return
		}
		o.Msgs = append(o.Msgs, canonBytes(m))
	}
	acceptOK := func(comp string) bool {
		if comp == "" || comp == "identity" {
			return true
		}
		for _, a := range accept {
			if a == comp {
				return true
			}
		}
		return false
	}
	if form != FormGRPC && len(rv.Trailers) > 0 {
		o.problem("stray HTTP trailers %v: %s does not use HTTP trailers", sortedKeys(rv.Trailers), form)
	}
	switch form {
	case FormGRPC, FormGRPCWeb:
		base := "application/grpc"
		if form == FormGRPCWeb {
			base = "application/grpc-web"
		}
		bare := func() {
			// a bare HTTP error is a legal shape for a request rejected before dispatch
			o.Kind = "bare-http"
			o.BareBody = string(rv.Body)
			o.Allow = splitSorted(rv.Header.Values("Allow"))
			o.Terminals = 1
		}
		if rv.Status != 200 {
			if rv.Header.Get("Grpc-Status") != "" || strings.HasPrefix(ct, base) {
				o.problem("%s response with HTTP status %d mixes protocol framing and HTTP error", form, rv.Status)
				o.Kind = "invalid"
				return o
			}
			bare()
			return o
		}
		respCodec := ""
		switch {
		case ct == base:
			respCodec = "proto"
		case strings.HasPrefix(ct, base+"+"):
			respCodec = strings.TrimPrefix(ct, base+"+")
		default:
			o.problem("content-type %q is not %s", ct, base)
			o.Kind = "invalid"
			return o
		}
		if respCodec == "" {
			o.problem("content-type %q has an empty codec", ct)
		} else if respCodec != codec {
			o.problem("response codec %q differs from request codec %q", respCodec, codec)
		}
		comp := rv.Header.Get("Grpc-Encoding")
		o.RespCompression = comp
		if !acceptOK(comp) {
			o.problem("response compression %q was not offered by the client", comp)
		}
		hdrErr, inHeaders, prob := parseGRPCStatus(rv.Header)
		if prob != "" {
			o.problem("headers: %s", prob)
		}
		var frames []frame
		var rest []byte
		frames, rest = splitFrames(rv.Body)
		if len(rest) > 0 {
			o.problem("response body ends inside a frame (%d stray bytes)", len(rest))
		}
		var trailerErr *ErrSpec
		trailerSeen := false
		for i, f := range frames {
			if form == FormGRPCWeb && f.Flags&0x80 != 0 {
				if f.Flags&^0x81 != 0 {
					o.problem("frame %d has invalid flags %#x", i, f.Flags)
				}
				if trailerSeen {
					o.problem("more than one trailer frame")
				}
				trailerSeen = true
				o.Terminals++
				if i != len(frames)-1 {
					o.problem("data after the trailer frame")
				}
				payload := f.Payload
				if f.Flags&1 != 0 {
					var err error
					payload, err = refDecompress(comp, payload)
					if err != nil {
						o.problem("trailer frame does not decompress: %v", err)
					}
				}
				th := http.Header{}
				for _, line := range strings.Split(string(payload), "\r\n") {
					if line == "" {
						continue
					}
					k, v, ok := strings.Cut(line, ":")
					if !ok {
						o.problem("malformed trailer line %q", line)
						continue
					}
					th.Add(http.CanonicalHeaderKey(strings.TrimSpace(k)), strings.TrimSpace(v))
				}
				e, present, prob := parseGRPCStatus(th)
				if prob != "" {
					o.problem("trailer frame: %s", prob)
				}
				if !present {
					o.problem("trailer frame lacks grpc-status")
					e = &ErrSpec{Code: -1, Msg: "no status"}
				}
				trailerErr = e
				for k, v := range appHeaders(th) {
					o.Trailers[k] = v
				}
				continue
			}
			if f.Flags != 0 && f.Flags != 1 {
				o.problem("frame %d has invalid flags %#x", i, f.Flags)
				continue
			}
			if trailerSeen {
				continue
			}
			payload := f.Payload
			if f.Flags == 1 {
				if comp == "" || comp == "identity" {
					o.problem("frame %d is flagged compressed but no compression was declared", i)
				}
				var err error
				payload, err = refDecompress(comp, payload)
				if err != nil {
					o.problem("frame %d flagged compressed does not decompress as %q: %v", i, comp, err)
					o.Msgs = append(o.Msgs, nil)
					continue
				}
			}
			o.RawMsgs = append(o.RawMsgs, payload)
			decodeMsg(payload, codec)
		}
		if form == FormGRPC {
			e, present, prob := parseGRPCStatus(rv.Trailers)
			if prob != "" {
				o.problem("trailers: %s", prob)
			}
			if present {
				o.Terminals++
				trailerErr = e
				trailerSeen = true
			}
			for k, v := range appHeaders(rv.Trailers) {
				o.Trailers[k] = v
			}
		}
		if inHeaders {
			o.TrailersOnly = true
			o.Terminals++
			if len(frames) > 0 && !(form == FormGRPCWeb && len(frames) == 1 && trailerSeen) {
				o.problem("trailers-only response carries a body")
			}
			if trailerSeen && !sameErr(hdrErr, trailerErr) {
				// an identical repetition is the same disposition; a different one is a second outcome
				o.problem("status signalled both in headers (%v) and in trailers (%v), and they differ", hdrErr, trailerErr)
			}
			if trailerSeen {
				o.Terminals--
			}
			trailerErr = hdrErr
		}
		if o.Terminals == 0 {
			o.problem("no grpc-status anywhere: RPC has no terminal disposition")
			o.Kind = "invalid"
			return o
		}
		if trailerErr != nil {
			o.Kind = "error"
			o.Err = trailerErr
		} else {
			o.Kind = "ok"
		}
	case FormConnectStream:
		if rv.Status != 200 {
			if strings.HasPrefix(ct, "application/connect+") {
				o.problem("connect streaming response with HTTP status %d", rv.Status)
				o.Kind = "invalid"
				return o
			}
			o.Kind = "bare-http"
			o.BareBody = string(rv.Body)
			o.Allow = splitSorted(rv.Header.Values("Allow"))
			o.Terminals = 1
			return o
		}
		if !strings.HasPrefix(ct, "application/connect+") {
			o.problem("content-type %q is not application/connect+*", ct)
			o.Kind = "invalid"
			return o
		}
		respCodec := strings.TrimPrefix(ct, "application/connect+")
		if respCodec == "" {
			o.problem("content-type %q has an empty codec", ct)
		} else if respCodec != codec {
			o.problem("response codec %q differs from request codec %q", respCodec, codec)
		}
		comp := rv.Header.Get("Connect-Content-Encoding")
		o.RespCompression = comp
		if !acceptOK(comp) {
			o.problem("response compression %q was not offered by the client", comp)
		}
		frames, rest := splitFrames(rv.Body)
		if len(rest) > 0 {
			o.problem("response body ends inside a frame (%d stray bytes)", len(rest))
		}
		ended := false
		for i, f := range frames {
			if f.Flags&^0x03 != 0 {
				o.problem("frame %d has invalid flags %#x", i, f.Flags)
				continue
			}
			if ended {
				o.problem("data after the end-of-stream frame")
				continue
			}
			payload := f.Payload
			if f.Flags&1 != 0 {
				if comp == "" || comp == "identity" {
					o.problem("frame %d is flagged compressed but no compression was declared", i)
				}
				var err error
				payload, err = refDecompress(comp, payload)
				if err != nil {
					o.problem("frame %d flagged compressed does not decompress as %q: %v", i, comp, err)
					if f.Flags&2 == 0 {
						o.Msgs = append(o.Msgs, nil)
					}
					continue
				}
			}
			if f.Flags&2 != 0 {
				ended = true
				o.Terminals++
				var end struct {
					Error    json.RawMessage     `json:"error"`
					Metadata map[string][]string `json:"metadata"`
				}
				if err := json.Unmarshal(payload, &end); err != nil {
					o.problem("end-of-stream frame is not JSON: %v", err)
					o.Err = &ErrSpec{Code: -1, Msg: "unparsable end of stream"}
					continue
				}
				for k, v := range end.Metadata {
					if !isControlHeader(k) {
						o.Trailers[http.CanonicalHeaderKey(k)] = v
					}
				}
				if len(end.Error) > 0 && string(end.Error) != "null" {
					e, prob := connectErrFromJSON(end.Error)
					if prob != "" {
						o.problem("end-of-stream: %s", prob)
					}
					o.Err = e
				}
				continue
			}
			o.RawMsgs = append(o.RawMsgs, payload)
			decodeMsg(payload, codec)
		}
		if !ended {
			o.problem("no end-of-stream frame: RPC has no terminal disposition")
			o.Kind = "invalid"
			return o
		}
		if o.Err != nil {
			o.Kind = "error"
		} else {
			o.Kind = "ok"
		}
	case FormConnectUnary, FormConnectGet:
		o.Terminals = 1
		for k, v := range rv.Header {
			if len(k) > 8 && strings.EqualFold(k[:8], "Trailer-") {
				name := http.CanonicalHeaderKey(k[8:])
				if !isControlHeader(name) {
					o.Trailers[name] = append(o.Trailers[name], v...)
				}
			}
		}
		comp := rv.Header.Get("Content-Encoding")
		o.RespCompression = comp
		if !acceptOK(comp) {
			o.problem("response compression %q was not offered by the client", comp)
		}
		body := rv.Body
		if comp != "" && comp != "identity" && len(body) > 0 {
			var err error
			body, err = refDecompress(comp, body)
			if err != nil {
				o.problem("body declared Content-Encoding %q does not decompress: %v", comp, err)
				o.Kind = "invalid"
				return o
			}
		}
		if rv.Status == 200 {
			if !strings.HasPrefix(ct, "application/") {
				o.problem("content-type %q is not application/*", ct)
				o.Kind = "invalid"
				return o
			}
			respCodec := strings.TrimPrefix(ct, "application/")
			if respCodec == "" {
				o.problem("content-type %q has an empty codec", ct)
			} else if respCodec != codec {
				o.problem("response codec %q differs from request codec %q", respCodec, codec)
			}
			o.RawMsgs = append(o.RawMsgs, body)
			decodeMsg(body, codec)
			o.Kind = "ok"
			return o
		}
		if ct == "application/json" {
			e, prob := connectErrFromJSON(body)
			if prob == "" {
				o.Kind = "error"
				o.Err = e
				if want, ok := refHTTPFromCode[e.Code]; ok && want != rv.Status {
					o.problem("HTTP status %d does not match code %s (want %d)", rv.Status, codeName(e.Code), want)
				}
				return o
			}
		}
		o.Kind = "bare-http"
		o.BareBody = string(rv.Body)
		o.Allow = splitSorted(rv.Header.Values("Allow"))
	case FormREST:
		o.Terminals = 1
		comp := rv.Header.Get("Content-Encoding")
		o.RespCompression = comp
		if !acceptOK(comp) {
			o.problem("response compression %q was not offered by the client", comp)
		}
		body := rv.Body
		if comp != "" && comp != "identity" && len(body) > 0 {
			var err error
			body, err = refDecompress(comp, body)
			if err != nil {
				o.problem("body declared Content-Encoding %q does not decompress: %v", comp, err)
				o.Kind = "invalid"
				return o
			}
		}
		for k := range rv.Trailers {
			_ = k
		}
		if rv.Status == 200 {
			o.Kind = "ok"
			if httpBodyResp {
				o.RawMsgs = append(o.RawMsgs, body)
				o.Msgs = append(o.Msgs, append([]byte("httpbody:"+ct+":"), body...))
				return o
			}
			base, _, _ := strings.Cut(ct, ";")
			if strings.TrimSpace(base) != "application/json" {
				o.problem("content-type %q is not application/json", ct)
			}
			o.RawMsgs = append(o.RawMsgs, body)
			if restRespField != nil {
				o.Msgs = append(o.Msgs, restDecodeField(body, newMsg, restRespField, o))
			} else {
				decodeMsg(body, "json")
			}
			return o
		}
		base, _, _ := strings.Cut(ct, ";")
		if strings.TrimSpace(base) == "application/json" {
			var st status.Status
			if err := (protojson.UnmarshalOptions{DiscardUnknown: false}).Unmarshal(body, &st); err == nil && st.GetCode() != 0 {
				o.Kind = "error"
				o.Err = errFromStatusProto(&st)
				if want, ok := refHTTPFromCode[o.Err.Code]; ok && want != rv.Status {
					o.problem("HTTP status %d does not match code %s (want %d)", rv.Status, codeName(o.Err.Code), want)
				}
				return o
			}
		}
		o.Kind = "bare-http"
		o.BareBody = string(rv.Body)
		o.Allow = splitSorted(rv.Header.Values("Allow"))
	default:
		o.Kind = "raw"
		o.BareBody = string(rv.Body)
	}
	return o
}

// restDecodeField decodes a REST response body that carries only one field of the response message.
func restDecodeField(body []byte, newMsg msgFactory, fd protoreflect.FieldDescriptor, o *Outcome) []byte {
	m := newMsg()
	wrapped := append([]byte(`{"`+fd.JSONName()+`":`), body...)
	wrapped = append(wrapped, '}')
	if err := (protojson.UnmarshalOptions{}).Unmarshal(wrapped, m); err != nil {
		o.problem("response_body field %s does not decode: %v", fd.Name(), err)
		return nil
	}
	return canonBytes(m)
}

// effectiveCode maps an outcome to the RPC code a client library would report.
func (o *Outcome) effectiveCode() int {
	switch o.Kind {
	case "ok":
		return 0
	case "error":
		if o.Err != nil {
			return o.Err.Code
		}
	case "bare-http":
		return refCodeFromHTTP(o.HTTPStatus)
	}
	return -1
}

func (o *Outcome) canon() string {
	cp := *o
	cp.RawMsgs = nil
	b, _ := json.Marshal(&cp)
	return string(b)
}

func sortedKeys[V any](m map[string]V) []string {
	ks := make([]string, 0, len(m))
	for k := range m {
		ks = append(ks, k)
	}
	sort.Strings(ks)
	return ks
}

var errTruncated = errors.New("truncated")

func validUTF8(s string) bool { return utf8.ValidString(s) }

func sameErr(a, b *ErrSpec) bool {
	if a == nil || b == nil {
		return a == nil && b == nil
	}
	if a.Code != b.Code || a.Msg != b.Msg || len(a.Details) != len(b.Details) {
		return false
	}
	for i := range a.Details {
		if a.Details[i].Type != b.Details[i].Type || !bytes.Equal(a.Details[i].Value, b.Details[i].Value) {
			return false
		}
	}
	return true
}

// sawSuccess: would a client library report this RPC as successful? (status OK and every message decodable)
func (o *Outcome) sawSuccess() bool {
	if o == nil || o.Kind != "ok" {
		return false
	}
	for _, m := range o.Msgs {
		if m == nil {
			return false
		}
	}
	return true
}
