//go:build !race

package verifsim

func raceAugment(*Verdict) {}
