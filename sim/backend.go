package verifsim

// The scripted backend: recognises the protocol the transcoder chose from the request it
// receives, validates it strictly (C02), decodes it with the reference decoders, and answers in
// that same protocol from a protocol-neutral script.

import (
	"context"
	"encoding/json"
	"fmt"
	"io"
	"net/http"
	"strconv"
	"strings"

	"google.golang.org/protobuf/proto"
	"google.golang.org/protobuf/reflect/protoreflect"
)

type MsgSpec struct {
	Data       []byte `json:"data"`                  // canonical proto bytes of the message
	Compressed bool   `json:"compressed,omitempty"`  // per-frame flag choice
	RawPayload []byte `json:"raw_payload,omitempty"` // if set, this is put on the wire verbatim (hostile)
	HasRaw     bool   `json:"has_raw,omitempty"`     // RawPayload is meant even if empty (survives JSON)
	Flags      *int   `json:"flags,omitempty"`       // override flag byte (hostile)
	LenDelta   int    `json:"len_delta,omitempty"`   // declared length = real length + delta (hostile)
	Pad        int    `json:"pad,omitempty"`         // the compressed form carries this many empty stored blocks (legal; inflates to the same bytes)
}

type RespPlan struct {
	Headers          [][2]string `json:"headers,omitempty"`
	Msgs             []MsgSpec   `json:"msgs,omitempty"`
	Compression      string      `json:"compression,omitempty"`
	Trailers         [][2]string `json:"trailers,omitempty"`
	Err              *ErrSpec    `json:"err,omitempty"`
	ErrInHeaders     bool        `json:"err_in_headers,omitempty"`     // trailers-only where the protocol allows it
	TrailerStyle     string      `json:"trailer_style,omitempty"`      // announce | prefix | mixed (status trailers announced, error details and every other application trailer sent with the prefix)
	AnnounceCase     string      `json:"announce_case,omitempty"`      // spelling of the names in the Trailer header: "" canonical | lower | upper | given | lines (one header line per name)
	StrayHTTPTrailer bool        `json:"stray_http_trailer,omitempty"` // a Connect-unary backend (whose trailers are Trailer- headers) also sets a real HTTP trailer, as a middleware might
	CTCharset        bool        `json:"ct_charset,omitempty"`         // a REST backend labels its JSON (a Connect unary backend: its error JSON) "application/json; charset=utf-8"
	CompressErrBody  bool        `json:"compress_err_body,omitempty"`  // a Connect-unary or REST backend compresses its error body too (legal; connect-go does not, a compressing middleware does)
	EarlyTrailers    bool        `json:"early_trailers,omitempty"`     // prefix style: the first value of a multi-valued trailer is set before the head is written, the rest after the body
	DeclareCL        string      `json:"declare_cl,omitempty"`         // "" | exact | +N | -N | =N
	WriteMode        string      `json:"write_mode,omitempty"`         // whole | frames | prefix-payload | sizes
	WriteSizes       []int       `json:"write_sizes,omitempty"`        // cyclic, for mode sizes
	EmptyWrites      bool        `json:"empty_writes,omitempty"`       // interleave zero-length writes
	FlushEvery       int         `json:"flush_every,omitempty"`        // flush after every k-th write (0: never)
	ExplicitHdr      bool        `json:"explicit_header,omitempty"`
	CutAt            int         `json:"cut_at,omitempty"`       // >0: stop writing the body after this many bytes and return (no end)
	CutPlusEnd       bool        `json:"cut_plus_end,omitempty"` // with CutAt: still set trailers
	BareStatus       int         `json:"bare_status,omitempty"`  // answer with a bare HTTP status
	BareBody         []byte      `json:"bare_body,omitempty"`
	BareCT           string      `json:"bare_ct,omitempty"`
	GRPCStatusText   string      `json:"grpc_status_text,omitempty"` // override the text of grpc-status / numeric code
	EndRaw           []byte      `json:"end_raw,omitempty"`          // override the bytes of the end-of-stream frame payload
	EndFlags         *int        `json:"end_flags,omitempty"`
	EndCompressed    bool        `json:"end_compressed,omitempty"` // the end-of-stream / trailer frame is compressed (its compressed bit set)
	OmitEnd          bool        `json:"omit_end,omitempty"`       // never signal the end (missing grpc-status / end frame)
	ExtraHdrs        [][2]string `json:"extra_hdrs,omitempty"`     // raw control headers (hostile)
	RawBody          []byte      `json:"raw_body,omitempty"`       // if non-nil replaces the rendered body (hostile)
	HasRawBody       bool        `json:"has_raw_body,omitempty"`
	HasEndRaw        bool        `json:"has_end_raw,omitempty"`
	RawStatus        int         `json:"raw_status,omitempty"`
	ContentType      string      `json:"content_type,omitempty"`    // override
	HTTPBody         bool        `json:"http_body,omitempty"`       // REST target answering google.api.HttpBody: raw bytes
	AfterEnd         []byte      `json:"after_end,omitempty"`       // bytes that follow the end-of-stream frame in the body (protocols whose end travels in the body)
	RawHeaderKeys    bool        `json:"raw_header_keys,omitempty"` // application response headers are stored into the header map directly: the first value of a name under its canonical spelling, later values under the lower-case one (HTTP/2-style), as handlers that index w.Header() do
}

type BackendPlan struct {
	Mode        string   `json:"mode,omitempty"` // read-all | respond-first | no-read | pingpong | duplex
	ReadSizes   []int    `json:"read_sizes,omitempty"`
	Resp        RespPlan `json:"resp"`
	Lenient     bool     `json:"lenient,omitempty"`      // ignores read/decode errors
	PanicAt     string   `json:"panic_at,omitempty"`     // before-headers | after-headers | mid-body
	LateIO      bool     `json:"late_io,omitempty"`      // a leaked goroutine touches body and writer after the handler returned
	ReadAfter   bool     `json:"read_after,omitempty"`   // keep reading the request after responding
	CloseBody   string   `json:"close_body,omitempty"`   // the handler closes the request body itself: after-read | at-return | twice (connect-go and grpc-go handlers do)
	ServerFirst bool     `json:"server_first,omitempty"` // pingpong: the handler sends one message before it reads anything, and the client waits for it before sending its first
	SplitReader bool     `json:"split_reader,omitempty"` // pingpong: a second goroutine of the handler does the reading (reverse proxies, grpc-go's ServeHTTP transport)
}

type BackendObs struct {
	Seq              uint64              `json:"seq"`
	Service          string              `json:"service"`
	Method           string              `json:"method"`
	Path             string              `json:"path"`
	RawPath          string              `json:"raw_path,omitempty"`
	RawQuery         string              `json:"raw_query,omitempty"`
	Proto            string              `json:"proto"`
	ProtoMajor       int                 `json:"proto_major"`
	Header           http.Header         `json:"header"`
	ContentLength    int64               `json:"content_length"`
	Protocol         string              `json:"protocol"`
	Stream           bool                `json:"stream"` // enveloped
	Codec            string              `json:"codec"`
	Compression      string              `json:"compression,omitempty"`
	Accept           []string            `json:"accept,omitempty"`
	Timeout          string              `json:"timeout,omitempty"` // raw header value
	TimeoutHdr       string              `json:"timeout_hdr,omitempty"`
	Body             []byte              `json:"-"`
	BodyLen          int                 `json:"body_len"`
	ReadErr          string              `json:"read_err,omitempty"`
	Msgs             [][]byte            `json:"msgs,omitempty"` // canonical bytes of completely decoded request messages
	Problems         []string            `json:"problems,omitempty"`
	Undecodable      []string            `json:"undecodable,omitempty"` // what a conforming backend would fail the RPC for
	RPCMethod        string              `json:"rpc_method,omitempty"`  // resolved method full name
	WriteErrs        []string            `json:"write_errs,omitempty"`
	Ctx              context.Context     `json:"-"`
	CtxErrAtEntry    string              `json:"ctx_err_at_entry,omitempty"`
	Responded        bool                `json:"responded"`
	SentMsgs         int                 `json:"sent_msgs"`
	AppHeaders       map[string][]string `json:"app_headers,omitempty"`
	Panicked         bool                `json:"panicked,omitempty"`
	Returned         bool                `json:"returned"`
	Host             string              `json:"host,omitempty"`
	RequestURI       string              `json:"request_uri,omitempty"`
	TransferEncoding []string            `json:"transfer_encoding,omitempty"`
	Flushes          int                 `json:"flushes,omitempty"`
	ReqTrailers      map[string][]string `json:"req_trailers,omitempty"` // Request.Trailer as the handler found it after reading the body to its end
	rules            []RulePlan
	binding          *refBinding
}

func (b *BackendObs) problem(format string, args ...any) {
	b.Problems = append(b.Problems, fmt.Sprintf(format, args...))
}

// backendHandler is the http.Handler given to vanguard.NewService.
type backendHandler struct {
	world   func() *World
	svc     *ServicePlan
	schema  *Schema
	lookup  func(r *http.Request) *rpcState // finds the RPC this request belongs to
	unknown bool                            // this is the unknown-endpoint handler
}

type simPanic struct{ where string }

func (h *backendHandler) ServeHTTP(rw http.ResponseWriter, r *http.Request) {
	st := h.lookup(r)
	w := st.world
	obs := &BackendObs{Seq: w.Logf("backend.enter", "%s %s", r.Method, r.URL.Path), Ctx: r.Context()}
	st.Backend = append(st.Backend, obs)
	if h.unknown {
		obs.Service = "<unknown-handler>"
	} else {
		obs.Service = h.svc.Schema
	}
	if err := r.Context().Err(); err != nil {
		obs.CtxErrAtEntry = err.Error()
	}
	obs.Method, obs.Path, obs.RawPath, obs.RawQuery = r.Method, r.URL.Path, r.URL.RawPath, r.URL.RawQuery
	obs.Proto, obs.ProtoMajor = r.Proto, r.ProtoMajor
	obs.Host, obs.RequestURI, obs.TransferEncoding = r.Host, r.RequestURI, append([]string(nil), r.TransferEncoding...)
	obs.Header = r.Header.Clone()
	obs.ContentLength = r.ContentLength
	obs.AppHeaders = appHeaders(r.Header)
	if st.cfg != nil {
		obs.rules = st.cfg.Rules
	}
	bp := &st.plan.Backend
	defer func() {
		obs.Returned = true
		w.Logf("backend.return", "")
	}()
	if bp.LateIO {
		defer func() {
			body := r.Body
			w.Spawn(st.name+".leak", func() {
				w.Block("leak.wait", func() bool { return st.served })
				var p [8]byte
				_, _ = body.Read(p[:])
				_, _ = rw.Write([]byte("late"))
				if f, ok := rw.(http.Flusher); ok {
					f.Flush()
				}
			})
		}()
	}
	if h.unknown || st.plan.Passthrough {
		h.servePlain(st, obs, rw, r)
		return
	}
	h.classify(obs, r)
	if bp.PanicAt == "before-headers" {
		obs.Panicked = true
		panic(simPanic{"before-headers"})
	}
	rd := &reqReader{st: st, obs: obs, body: r.Body, sizes: bp.ReadSizes}
	if bp.CloseBody == "at-return" || bp.CloseBody == "twice" {
		defer func() { _ = r.Body.Close() }()
	}
	switch bp.Mode {
	case "respond-first":
		h.respond(st, obs, rw, nil)
		if bp.ReadAfter {
			rd.readAll()
			h.decodeRequest(obs)
		}
	case "no-read":
		h.respond(st, obs, rw, nil)
	case "pingpong":
		h.pingpong(st, obs, rw, rd)
	case "duplex":
		h.duplex(st, obs, rw, rd)
	default:
		rd.readAll()
		if bp.CloseBody == "after-read" || bp.CloseBody == "twice" {
			_ = r.Body.Close()
		}
		h.decodeRequest(obs)
		h.respond(st, obs, rw, nil)
	}
}

// servePlain: pass-through / unknown handler. Records everything and answers from the raw script.
func (h *backendHandler) servePlain(st *rpcState, obs *BackendObs, rw http.ResponseWriter, r *http.Request) {
	bp := &st.plan.Backend
	rd := &reqReader{st: st, obs: obs, body: r.Body, sizes: bp.ReadSizes}
	rd.readAll()
	if len(r.Trailer) > 0 {
		obs.ReqTrailers = map[string][]string{}
		for k, v := range r.Trailer {
			obs.ReqTrailers[k] = append([]string(nil), v...)
		}
	}
	rp := &bp.Resp
	for _, kv := range rp.Headers {
		rw.Header().Add(kv[0], kv[1])
	}
	for _, kv := range rp.ExtraHdrs {
		rw.Header().Add(kv[0], kv[1])
	}
	var tkeys []string
	if rp.TrailerStyle == "announce" {
		for _, kv := range rp.Trailers {
			tkeys = append(tkeys, kv[0])
		}
		if len(tkeys) > 0 {
			rw.Header().Set("Trailer", strings.Join(tkeys, ", "))
		}
	}
	status := rp.RawStatus
	if status == 0 {
		status = 200
	}
	body := rp.RawBody
	rw.WriteHeader(status)
	h.writeBody(st, obs, rw, body, nil)
	for _, kv := range rp.Trailers {
		if rp.TrailerStyle == "announce" {
			rw.Header().Add(kv[0], kv[1])
		} else {
			rw.Header().Add(http.TrailerPrefix+kv[0], kv[1])
		}
	}
	obs.Responded = true
}

// classify determines the protocol of the incoming request and validates its head (C02).
func (h *backendHandler) classify(obs *BackendObs, r *http.Request) {
	hd := r.Header
	cts := hd.Values("Content-Type")
	ct := ""
	if len(cts) > 0 {
		ct = cts[0]
	}
	if len(cts) > 1 {
		obs.problem("multiple Content-Type values %q", cts)
	}
	md := h.schema.methodByPath(r.URL.Path)
	switch {
	case ct == "application/grpc-web" || strings.HasPrefix(ct, "application/grpc-web+"):
		obs.Protocol, obs.Stream = ProtoGRPCWeb, true
		obs.Codec = strings.TrimPrefix(strings.TrimPrefix(ct, "application/grpc-web"), "+")
		if obs.Codec == "" && ct == "application/grpc-web" {
			obs.Codec = "proto"
		}
	case ct == "application/grpc" || strings.HasPrefix(ct, "application/grpc+"):
		obs.Protocol, obs.Stream = ProtoGRPC, true
		obs.Codec = strings.TrimPrefix(strings.TrimPrefix(ct, "application/grpc"), "+")
		if obs.Codec == "" && ct == "application/grpc" {
			obs.Codec = "proto"
		}
	case strings.HasPrefix(ct, "application/connect+"):
		obs.Protocol, obs.Stream = ProtoConnect, true
		obs.Codec = strings.TrimPrefix(ct, "application/connect+")
	case md != nil:
		obs.Protocol = ProtoConnect
		if r.Method == http.MethodGet {
			obs.Codec = r.URL.Query().Get("encoding")
		} else {
			obs.Codec = strings.TrimPrefix(ct, "application/")
			if obs.Codec == "json; charset=utf-8" { // the one parameter a Connect unary request may carry
				obs.Codec = "json"
			}
		}
	default:
		obs.Protocol = ProtoREST
		obs.Codec = "json"
	}
	if md != nil {
		obs.RPCMethod = string(md.FullName())
	}
	// --- request line
	if obs.Protocol != ProtoREST {
		if md == nil {
			obs.problem("%s request for path %q which is not a method of this service", obs.Protocol, r.URL.Path)
		}
		if obs.Protocol == ProtoConnect && !obs.Stream {
			if r.Method != http.MethodPost && r.Method != http.MethodGet {
				obs.problem("connect unary request with HTTP method %s", r.Method)
			}
		} else if r.Method != http.MethodPost {
			obs.problem("%s request with HTTP method %s", obs.Protocol, r.Method)
		}
		if r.Method == http.MethodPost && r.URL.RawQuery != "" {
			obs.problem("RPC POST request carries a query string %q", r.URL.RawQuery)
		}
	}
	if md != nil && obs.Protocol == ProtoConnect {
		streaming := md.IsStreamingClient() || md.IsStreamingServer()
		if streaming != obs.Stream {
			obs.problem("connect content-type %q does not fit the method's stream type", ct)
		}
	}
	// --- target protocol must be configured, and kept when the client's was acceptable
	cfgProto := false
	for _, p := range h.svc.protocols() {
		if p == obs.Protocol {
			cfgProto = true
		}
	}
	if !cfgProto {
		obs.problem("request arrived in protocol %s which is not among the configured %v", obs.Protocol, h.svc.protocols())
	}
	// --- HTTP version
	if obs.Protocol == ProtoGRPC && r.ProtoMajor != 2 {
		obs.problem("gRPC request with HTTP/%d", r.ProtoMajor)
	}
	if obs.Protocol == ProtoGRPC {
		if te := hd.Get("Te"); te != "trailers" {
			obs.problem("gRPC request without te: trailers (got %q)", te)
		}
	}
	// --- codec
	if obs.Codec == "" {
		obs.problem("request content-type %q names no codec", ct)
	} else if obs.Protocol != ProtoREST {
		ok := false
		for _, c := range h.svc.codecs() {
			if c == obs.Codec {
				ok = true
			}
		}
		if !ok {
			obs.problem("request codec %q is not among the configured %v", obs.Codec, h.svc.codecs())
		}
	}
	// --- compression + accept + timeout headers in the protocol's own form
	var compHdr, acceptHdr, timeoutHdr string
	switch {
	case obs.Protocol == ProtoGRPC || obs.Protocol == ProtoGRPCWeb:
		compHdr, acceptHdr, timeoutHdr = "Grpc-Encoding", "Grpc-Accept-Encoding", "Grpc-Timeout"
	case obs.Protocol == ProtoConnect && obs.Stream:
		compHdr, acceptHdr, timeoutHdr = "Connect-Content-Encoding", "Connect-Accept-Encoding", "Connect-Timeout-Ms"
	case obs.Protocol == ProtoConnect:
		compHdr, acceptHdr, timeoutHdr = "Content-Encoding", "Accept-Encoding", "Connect-Timeout-Ms"
	default:
		compHdr, acceptHdr, timeoutHdr = "Content-Encoding", "Accept-Encoding", "X-Server-Timeout"
	}
	if vs := hd.Values(compHdr); len(vs) > 1 {
		obs.problem("multiple %s values %q", compHdr, vs)
	}
	obs.Compression = hd.Get(compHdr)
	if obs.Protocol == ProtoConnect && !obs.Stream && r.Method == http.MethodGet {
		obs.Compression = r.URL.Query().Get("compression")
	}
	if obs.Compression == "identity" {
		obs.Compression = ""
	}
	if obs.Compression != "" {
		ok := false
		for _, c := range h.svc.compressions() {
			if c == obs.Compression {
				ok = true
			}
		}
		if !ok {
			obs.problem("request compression %q is not among the configured %v", obs.Compression, h.svc.compressions())
		}
	}
	obs.Accept = splitList(hd.Values(acceptHdr))
	obs.TimeoutHdr = timeoutHdr
	if vs := hd.Values(timeoutHdr); len(vs) > 1 {
		obs.problem("multiple %s values %q", timeoutHdr, vs)
	}
	obs.Timeout = hd.Get(timeoutHdr)
	if obs.Timeout != "" {
		if _, ok := refTimeoutNanos(timeoutHdr, obs.Timeout); !ok {
			obs.problem("%s: %q is not a well-formed timeout of this protocol", timeoutHdr, obs.Timeout)
		}
	}
	// --- leftovers of other protocols that contradict this one
	for _, other := range []string{"Grpc-Encoding", "Connect-Content-Encoding", "Content-Encoding"} {
		if other == compHdr {
			continue
		}
		if v := hd.Get(other); v != "" && v != "identity" && v != obs.Compression {
			obs.problem("leftover %s: %s contradicts %s: %q", other, v, compHdr, obs.Compression)
		}
	}
	for _, other := range []string{"Grpc-Timeout", "Connect-Timeout-Ms", "X-Server-Timeout"} {
		if other == timeoutHdr {
			continue
		}
		if v := hd.Get(other); v != "" {
			a, okA := refTimeoutNanos(other, v)
			b, okB := refTimeoutNanos(timeoutHdr, obs.Timeout)
			if !okA || !okB || a.Cmp(b) != 0 {
				obs.problem("leftover %s: %s contradicts %s: %q", other, v, timeoutHdr, obs.Timeout)
			}
		}
	}
	if obs.Protocol == ProtoConnect && !obs.Stream && r.Method == http.MethodPost {
		if v := hd.Get("Connect-Protocol-Version"); v != "1" {
			obs.problem("connect unary request without Connect-Protocol-Version: 1 (got %q)", v)
		}
	}
	if obs.Protocol == ProtoConnect && !obs.Stream && r.Method == http.MethodGet {
		q := r.URL.Query()
		if q.Get("connect") != "v1" {
			obs.problem("connect GET request without connect=v1")
		}
	}
}

func splitList(vals []string) []string {
	var out []string
	for _, v := range vals {
		for _, p := range strings.Split(v, ",") {
			p = strings.TrimSpace(p)
			if p != "" {
				out = append(out, p)
			}
		}
	}
	return out
}

// reqReader reads the request body in the planned buffer sizes.
type reqReader struct {
	st    *rpcState
	obs   *BackendObs
	body  io.Reader
	sizes []int
	i     int
	done  bool
}

func (rd *reqReader) readSome() bool {
	if rd.done {
		return false
	}
	size := 4096
	if len(rd.sizes) > 0 {
		size = rd.sizes[rd.i%len(rd.sizes)]
		rd.i++
	}
	if size < 1 {
		size = 1
	}
	buf := make([]byte, size)
	n, err := rd.body.Read(buf)
	rd.obs.Body = append(rd.obs.Body, buf[:n]...)
	rd.obs.BodyLen = len(rd.obs.Body)
	if n < 0 || n > size {
		rd.obs.problem("Read returned n=%d for a %d byte buffer", n, size)
	}
	if err != nil {
		rd.done = true
		if err != io.EOF {
			rd.obs.ReadErr = err.Error()
		}
		return false
	}
	if rd.st.world.Aborting() {
		rd.done = true
		return false
	}
	return true
}

func (rd *reqReader) readAll() {
	for rd.readSome() {
	}
}

// decodeRequest validates and decodes obs.Body according to the classified protocol.
func (h *backendHandler) decodeRequest(obs *BackendObs) {
	obs.Msgs = nil
	obs.Undecodable = nil
	if obs.ReadErr != "" {
		obs.Undecodable = append(obs.Undecodable, "read error: "+obs.ReadErr)
	}
	md := h.schema.methodByFullName(obs.RPCMethod)
	newReq := func() proto.Message {
		if md == nil {
			return nil
		}
		return h.schema.newMessage(md.Input())
	}
	decode := func(payload []byte, what string) bool {
		m := newReq()
		if m == nil {
			return true
		}
		if err := refUnmarshal(obs.Codec, payload, m); err != nil {
			obs.Undecodable = append(obs.Undecodable, fmt.Sprintf("%s does not decode as %s: %v", what, obs.Codec, err))
			obs.problem("%s does not decode as %s: %v", what, obs.Codec, err)
			return false
		}
		obs.Msgs = append(obs.Msgs, canonBytes(m))
		return true
	}
	switch {
	case obs.Stream:
		frames, rest := splitFrames(obs.Body)
		for i, f := range frames {
			if f.Flags != 0 && f.Flags != 1 {
				obs.problem("request frame %d has invalid flags %#x", i, f.Flags)
				obs.Undecodable = append(obs.Undecodable, fmt.Sprintf("frame %d invalid flags %#x", i, f.Flags))
				break
			}
			payload := f.Payload
			if f.Flags == 1 {
				if obs.Compression == "" {
					obs.problem("request frame %d has the compressed bit set but no compression is declared", i)
					obs.Undecodable = append(obs.Undecodable, "compressed frame without declared compression")
					break
				}
				var err error
				payload, err = refDecompress(obs.Compression, payload)
				if err != nil {
					obs.problem("request frame %d does not decompress as %s: %v", i, obs.Compression, err)
					obs.Undecodable = append(obs.Undecodable, fmt.Sprintf("frame %d does not decompress", i))
					break
				}
			}
			if !decode(payload, fmt.Sprintf("request frame %d", i)) {
				break // like a real peer, stop at the first frame that does not decode
			}
		}
		if len(rest) > 0 {
			obs.Undecodable = append(obs.Undecodable, fmt.Sprintf("stream ends inside a frame (%d stray bytes)", len(rest)))
			if obs.ReadErr == "" {
				obs.problem("request body ended cleanly inside a frame (%d stray bytes)", len(rest))
			}
		}
		if md != nil && !md.IsStreamingClient() && obs.ReadErr == "" && len(rest) == 0 && len(frames) != 1 {
			obs.problem("non-client-streaming method received %d request frames", len(frames))
			obs.Undecodable = append(obs.Undecodable, fmt.Sprintf("unary request with %d messages", len(frames)))
		}
	case obs.Protocol == ProtoConnect && obs.Method == http.MethodGet:
		if len(obs.Body) > 0 {
			obs.problem("connect GET request has a %d byte body", len(obs.Body))
		}
		msg, prob := refConnectGetMessage(obs.RawQuery)
		if prob != "" {
			obs.problem("connect GET: %s", prob)
			obs.Undecodable = append(obs.Undecodable, prob)
			return
		}
		if obs.Compression != "" && len(msg) > 0 {
			var err error
			msg, err = refDecompress(obs.Compression, msg)
			if err != nil {
				obs.problem("connect GET message does not decompress: %v", err)
				obs.Undecodable = append(obs.Undecodable, "GET message does not decompress")
				return
			}
		}
		decode(msg, "GET message")
	case obs.Protocol == ProtoConnect:
		payload := obs.Body
		if obs.ReadErr != "" {
			return
		}
		if obs.Compression != "" && len(payload) > 0 {
			var err error
			payload, err = refDecompress(obs.Compression, payload)
			if err != nil {
				obs.problem("body declared Content-Encoding %s does not decompress: %v", obs.Compression, err)
				obs.Undecodable = append(obs.Undecodable, "body does not decompress")
				return
			}
		}
		decode(payload, "request body")
	default: // REST: decoded by the reference binder in the oracle that needs it
		if obs.ReadErr != "" {
			return
		}
		payload := obs.Body
		if obs.Compression != "" && len(payload) > 0 {
			var err error
			payload, err = refDecompress(obs.Compression, payload)
			if err != nil {
				obs.problem("body declared Content-Encoding %s does not decompress: %v", obs.Compression, err)
				obs.Undecodable = append(obs.Undecodable, "body does not decompress")
				return
			}
		}
		if h.schema.restDecode != nil {
			m, mdName, prob := h.schema.restDecode(obs, payload)
			if prob != "" {
				obs.problem("REST request: %s", prob)
				obs.Undecodable = append(obs.Undecodable, prob)
				return
			}
			obs.RPCMethod = mdName
			if m != nil {
				obs.Msgs = append(obs.Msgs, canonBytes(m))
			}
		}
	}
	if obs.ContentLength >= 0 && obs.ReadErr == "" && int64(len(obs.Body)) != obs.ContentLength {
		obs.problem("declared ContentLength %d but body has %d bytes", obs.ContentLength, len(obs.Body))
	}
	if cl := obs.Header.Get("Content-Length"); cl != "" && obs.ReadErr == "" {
		if n, err := strconv.Atoi(cl); err != nil || n != len(obs.Body) {
			obs.problem("Content-Length header %q but body has %d bytes", cl, len(obs.Body))
		}
	}
}

// rendered response
type renderedResp struct {
	status   int
	headers  http.Header
	body     []byte
	bounds   []int // end offsets of frames within body
	prefixes []int // start offsets of frames
	trailers [][2]string
	nmsgs    int
	comp     string
	payloads [][]byte
}

func (h *backendHandler) renderResponse(st *rpcState, obs *BackendObs, override *ErrSpec, only []MsgSpec) *renderedResp {
	rp := &st.plan.Backend.Resp
	rr := &renderedResp{status: 200, headers: http.Header{}}
	md := h.schema.methodByFullName(obs.RPCMethod)
	errSpec := rp.Err
	msgs := rp.Msgs
	if only != nil {
		msgs = only
	}
	if override != nil {
		errSpec = override
		msgs = nil
	}
	for _, kv := range rp.Headers {
		ck, lk := http.CanonicalHeaderKey(kv[0]), strings.ToLower(kv[0])
		if _, has := rr.headers[ck]; rp.RawHeaderKeys && has && lk != ck {
			// sorted by key the canonical spelling comes first, so the order of the values on the wire is the scripted one
			rr.headers[lk] = append(rr.headers[lk], kv[1])
			continue
		}
		rr.headers.Add(kv[0], kv[1])
	}
	comp := rp.Compression
	if comp != "" {
		ok := false
		for _, a := range obs.Accept {
			if a == comp {
				ok = true
			}
		}
		if !ok {
			comp = "" // a conforming backend only uses what the caller offered
		}
	}
	rr.comp = comp
	encode := func(ms MsgSpec) []byte {
		if ms.RawPayload != nil {
			return ms.RawPayload
		}
		if md == nil {
			return ms.Data
		}
		m := h.schema.newMessage(md.Output())
		if err := proto.Unmarshal(ms.Data, m); err != nil {
			return ms.Data
		}
		codec := obs.Codec
		if obs.Protocol == ProtoREST {
			codec = "json"
		}
		b, err := refMarshal(codec, m)
		if err != nil {
			return ms.Data
		}
		return b
	}
	frames := func() {
		for _, ms := range msgs {
			payload := encode(ms)
			var fl byte
			if ms.Compressed && comp != "" && ms.RawPayload == nil {
				payload = refCompressPadded(comp, payload, ms.Pad)
				fl = 1
			}
			if ms.Flags != nil {
				fl = byte(*ms.Flags)
			}
			rr.payloads = append(rr.payloads, payload)
			env := envelope(fl, payload)
			if ms.LenDelta != 0 {
				n := int64(len(payload)) + int64(ms.LenDelta)
				if n < 0 {
					n = 0
				}
				env[1], env[2], env[3], env[4] = byte(n>>24), byte(n>>16), byte(n>>8), byte(n)
			}
			rr.prefixes = append(rr.prefixes, len(rr.body))
			rr.body = append(rr.body, env...)
			rr.bounds = append(rr.bounds, len(rr.body))
			rr.nmsgs++
		}
	}
	statusText := func(e *ErrSpec) http.Header {
		hh := http.Header{}
		writeGRPCStatus(hh, e, "")
		if rp.GRPCStatusText != "" {
			hh.Set("Grpc-Status", rp.GRPCStatusText)
		}
		return hh
	}
	switch {
	case rp.BareStatus != 0:
		rr.status = rp.BareStatus
		if rp.BareCT != "" {
			rr.headers.Set("Content-Type", rp.BareCT)
		}
		rr.body = rp.BareBody
	case obs.Protocol == ProtoGRPC || obs.Protocol == ProtoGRPCWeb:
		base := "application/grpc"
		if obs.Protocol == ProtoGRPCWeb {
			base = "application/grpc-web"
		}
		rr.headers.Set("Content-Type", base+"+"+obs.Codec)
		if comp != "" {
			rr.headers.Set("Grpc-Encoding", comp)
		}
		trailersOnly := rp.ErrInHeaders && len(msgs) == 0 && errSpec != nil
		if trailersOnly && !rp.OmitEnd {
			for k, v := range statusText(errSpec) {
				rr.headers[k] = v
			}
			for _, kv := range rp.Trailers {
				rr.headers.Add(kv[0], kv[1])
			}
			break
		}
		frames()
		if rp.OmitEnd {
			break
		}
		if obs.Protocol == ProtoGRPC {
			for k, v := range statusText(errSpec) {
				for _, vv := range v {
					rr.trailers = append(rr.trailers, [2]string{k, vv})
				}
			}
			rr.trailers = append(rr.trailers, rp.Trailers...)
		} else {
			th := statusText(errSpec)
			var sb strings.Builder
			for _, k := range sortedKeys(th) {
				for _, v := range th[k] {
					sb.WriteString(strings.ToLower(k) + ": " + v + "\r\n")
				}
			}
			for _, kv := range rp.Trailers {
				sb.WriteString(strings.ToLower(kv[0]) + ": " + kv[1] + "\r\n")
			}
			payload := []byte(sb.String())
			if rp.EndRaw != nil {
				payload = rp.EndRaw
			}
			fl := byte(0x80)
			if rp.EndCompressed && comp != "" && rp.EndRaw == nil {
				payload, fl = refCompress(comp, payload), 0x81 // legal, if unusual: the trailer frame compressed like a message
			}
			if rp.EndFlags != nil {
				fl = byte(*rp.EndFlags)
			}
			rr.prefixes = append(rr.prefixes, len(rr.body))
			rr.body = append(rr.body, envelope(fl, payload)...)
			rr.bounds = append(rr.bounds, len(rr.body))
			rr.body = append(rr.body, rp.AfterEnd...)
		}
	case obs.Protocol == ProtoConnect && obs.Stream:
		rr.headers.Set("Content-Type", "application/connect+"+obs.Codec)
		if comp != "" {
			rr.headers.Set("Connect-Content-Encoding", comp)
		}
		frames()
		if rp.OmitEnd {
			break
		}
		end := map[string]any{}
		if errSpec != nil {
			end["error"] = json.RawMessage(connectErrToJSON(errSpec))
		}
		if len(rp.Trailers) > 0 {
			md := map[string][]string{}
			for _, kv := range rp.Trailers {
				md[kv[0]] = append(md[kv[0]], kv[1])
			}
			end["metadata"] = md
		}
		payload, _ := json.Marshal(end)
		if rp.EndRaw != nil {
			payload = rp.EndRaw
		}
		fl := byte(0x02)
		if rp.EndCompressed && comp != "" && rp.EndRaw == nil {
			payload, fl = refCompress(comp, payload), 0x03
		}
		if rp.EndFlags != nil {
			fl = byte(*rp.EndFlags)
		}
		rr.prefixes = append(rr.prefixes, len(rr.body))
		rr.body = append(rr.body, envelope(fl, payload)...)
		rr.bounds = append(rr.bounds, len(rr.body))
		rr.body = append(rr.body, rp.AfterEnd...)
	case obs.Protocol == ProtoConnect:
		for _, kv := range rp.Trailers {
			rr.headers.Add("Trailer-"+kv[0], kv[1])
		}
		if errSpec != nil {
			rr.status = refHTTPFromCode[errSpec.Code]
			if rr.status == 0 {
				rr.status = 500
			}
			rr.headers.Set("Content-Type", "application/json")
			if rp.CTCharset {
				rr.headers.Set("Content-Type", "application/json; charset=utf-8") // a legal label of the same JSON
			}
			rr.body = connectErrToJSON(errSpec)
			if rp.CompressErrBody && comp != "" {
				rr.body = refCompress(comp, rr.body)
				rr.headers.Set("Content-Encoding", comp)
			}
			break
		}
		rr.headers.Set("Content-Type", "application/"+obs.Codec)
		if len(msgs) > 0 {
			rr.body = encode(msgs[0])
			rr.nmsgs = 1
			if comp != "" && msgs[0].Compressed && msgs[0].RawPayload == nil {
				rr.body = refCompressPadded(comp, rr.body, msgs[0].Pad)
				rr.headers.Set("Content-Encoding", comp)
			}
			if comp != "" && msgs[0].RawPayload != nil {
				rr.headers.Set("Content-Encoding", comp)
			}
			rr.payloads = append(rr.payloads, rr.body)
		}
	default: // REST
		if errSpec != nil {
			rr.status = refHTTPFromCode[errSpec.Code]
			if rr.status == 0 {
				rr.status = 500
			}
			rr.headers.Set("Content-Type", "application/json")
			var merr error
			es := jsonExpressible(errSpec)
			rr.body, merr = refMarshal("json", statusProto(es))
			if merr != nil {
				// (a message that is not valid UTF-8 cannot be a JSON string: a REST backend says what it can)
				es.Msg = strings.ToValidUTF8(es.Msg, "\uFFFD")
				rr.body, merr = refMarshal("json", statusProto(es))
			}
			if merr != nil {
				rr.body = []byte(`{"code":13,"message":"unrenderable error"}`)
			}
			if rp.CompressErrBody && comp != "" {
				// a REST server behind a compress-everything middleware: the error body is encoded like any other body
				rr.body = refCompress(comp, rr.body)
				rr.headers.Set("Content-Encoding", comp)
			}
			break
		}
		rr.headers.Set("Content-Type", "application/json")
		if len(msgs) > 0 && msgs[0].RawPayload != nil {
			// payload bytes given verbatim (fault injection): sent as they are, under the declared compression
			rr.body = msgs[0].RawPayload
			rr.nmsgs = 1
			if comp != "" {
				rr.headers.Set("Content-Encoding", comp)
			}
			rr.payloads = append(rr.payloads, rr.body)
		} else if len(msgs) > 0 {
			if h.schema.restEncodeResp != nil {
				var ct string
				rr.body, ct = h.schema.restEncodeResp(obs, msgs[0].Data)
				if ct != "" {
					rr.headers.Set("Content-Type", ct)
				}
			} else {
				rr.body = encode(msgs[0])
			}
			rr.nmsgs = 1
			if comp != "" && msgs[0].Compressed {
				rr.body = refCompressPadded(comp, rr.body, msgs[0].Pad)
				rr.headers.Set("Content-Encoding", comp)
			}
			rr.payloads = append(rr.payloads, rr.body)
		}
	}
	if rp.CTCharset && obs.Protocol == ProtoREST && rr.headers.Get("Content-Type") == "application/json" {
		rr.headers.Set("Content-Type", "application/json; charset=utf-8") // what many REST servers say
	}
	if rp.ContentType != "" {
		rr.headers.Set("Content-Type", rp.ContentType)
	}
	if rp.RawStatus != 0 {
		rr.status = rp.RawStatus
	}
	if rp.RawBody != nil {
		rr.body = rp.RawBody
		rr.bounds, rr.prefixes = nil, nil
	}
	for _, kv := range rp.ExtraHdrs {
		rr.headers.Set(kv[0], kv[1])
	}
	switch {
	case rp.DeclareCL == "exact":
		rr.headers.Set("Content-Length", strconv.Itoa(len(rr.body)))
	case strings.HasPrefix(rp.DeclareCL, "+") || strings.HasPrefix(rp.DeclareCL, "-"):
		d, _ := strconv.Atoi(rp.DeclareCL)
		n := len(rr.body) + d
		if n < 0 {
			n = 0
		}
		rr.headers.Set("Content-Length", strconv.Itoa(n))
	case strings.HasPrefix(rp.DeclareCL, "="):
		rr.headers.Set("Content-Length", rp.DeclareCL[1:])
	}
	return rr
}

func (h *backendHandler) respond(st *rpcState, obs *BackendObs, rw http.ResponseWriter, only []MsgSpec) {
	bp := &st.plan.Backend
	rp := &bp.Resp
	var override *ErrSpec
	if len(obs.Undecodable) > 0 && !bp.Lenient {
		// a conforming backend fails the RPC in its own protocol when it cannot read or decode the request
		override = &ErrSpec{Code: 3, Msg: "backend: " + obs.Undecodable[0]}
	}
	rr := h.renderResponse(st, obs, override, only)
	h.writeResponse(st, obs, rw, rr, override == nil)
	_ = rp
}

// strayTrailerKey is not part of any plan's metadata: what becomes of it is not judged, what becomes of the rest is.
const strayTrailerKey = "X-Stray-Http-Trailer"

// announceTrailers sets the Trailer header the way the plan spells it; field names are case-insensitive, so every
// spelling announces the same trailers.
func announceTrailers(hd http.Header, names []string, style string) {
	seen := map[string]bool{}
	var keys []string
	for _, n := range names {
		k := http.CanonicalHeaderKey(n)
		if seen[k] {
			continue
		}
		seen[k] = true
		switch style {
		case "lower":
			k = strings.ToLower(n)
		case "upper":
			k = strings.ToUpper(n)
		case "given":
			k = n
		}
		keys = append(keys, k)
	}
	if len(keys) == 0 {
		return
	}
	if style == "lines" {
		hd["Trailer"] = keys
		return
	}
	hd.Set("Trailer", strings.Join(keys, ", "))
}

func (h *backendHandler) writeResponse(st *rpcState, obs *BackendObs, rw http.ResponseWriter, rr *renderedResp, scripted bool) {
	bp := &st.plan.Backend
	rp := &bp.Resp
	w := st.world
	hd := rw.Header()
	for k, v := range rr.headers {
		hd[k] = append([]string(nil), v...)
	}
	announce := rp.TrailerStyle == "announce"
	// mixed: some trailers are announced in the Trailer header, the others are sent with http.TrailerPrefix, as happens
	// when a server announces its status trailers and a layer above it adds more later (both ways are documented net/http)
	mixed := rp.TrailerStyle == "mixed"
	announcedName := map[string]bool{}
	if mixed {
		idx := 0
		for _, kv := range rr.trailers {
			k := http.CanonicalHeaderKey(kv[0])
			if _, seen := announcedName[k]; seen {
				continue
			}
			switch strings.ToLower(k) {
			case "grpc-status", "grpc-message":
				announcedName[k] = true
			case "grpc-status-details-bin":
				announcedName[k] = false
			default:
				announcedName[k] = idx%2 == 0
				idx++
			}
		}
	}
	if (announce || mixed) && len(rr.trailers) > 0 {
		var names []string
		for _, kv := range rr.trailers {
			if announce || announcedName[http.CanonicalHeaderKey(kv[0])] {
				names = append(names, kv[0])
			}
		}
		if len(names) > 0 {
			announceTrailers(hd, names, rp.AnnounceCase)
		}
	}
	early := map[int]bool{}
	if rp.EarlyTrailers && !announce && !mixed {
		// a handler that starts a multi-valued trailer before it writes the head and adds to it at the end
		seen := map[string]int{}
		for _, kv := range rr.trailers {
			seen[http.CanonicalHeaderKey(kv[0])]++
		}
		done := map[string]bool{}
		for i, kv := range rr.trailers {
			k := http.CanonicalHeaderKey(kv[0])
			if seen[k] > 1 && !done[k] && !strings.HasPrefix(strings.ToLower(k), "grpc-") {
				done[k] = true
				early[i] = true
				rw.Header().Add(http.TrailerPrefix+kv[0], kv[1])
			}
		}
	}
	if rp.ExplicitHdr || rr.status != 200 || len(rr.body) == 0 {
		rw.WriteHeader(rr.status)
	}
	w.Logf("backend.headers", "%d", rr.status)
	if bp.PanicAt == "after-headers" {
		obs.Panicked = true
		panic(simPanic{"after-headers"})
	}
	body := rr.body
	cut := false
	if scripted && rp.CutAt > 0 && rp.CutAt < len(body) {
		body = body[:rp.CutAt]
		cut = true
	}
	st.respLen = len(rr.body)
	st.respBounds, st.respPrefixes = rr.bounds, rr.prefixes
	st.respEndLen = 0
	if obs.Stream && obs.Protocol != ProtoGRPC && len(rr.bounds) > rr.nmsgs && len(rr.prefixes) == len(rr.bounds) {
		last := len(rr.bounds) - 1
		st.respEndLen = rr.bounds[last] - rr.prefixes[last] - 5
	}
	st.respComp = rr.comp
	st.respPayloads = rr.payloads
	h.writeBody(st, obs, rw, body, rr)
	obs.SentMsgs = rr.nmsgs
	if cut && !rp.CutPlusEnd {
		obs.Responded = true
		return
	}
	if rp.StrayHTTPTrailer && obs.Protocol == ProtoConnect && !obs.Stream {
		rw.Header().Add(http.TrailerPrefix+strayTrailerKey, "t=1")
	}
	for i, kv := range rr.trailers {
		if early[i] {
			continue
		}
		// like connect-go and grpc-go, ask the writer for its header map at the time the trailers are set
		if announce || (mixed && announcedName[http.CanonicalHeaderKey(kv[0])]) {
			rw.Header().Add(kv[0], kv[1])
		} else {
			rw.Header().Add(http.TrailerPrefix+kv[0], kv[1])
		}
	}
	obs.Responded = true
}

// writeBody writes body with the planned segmentation and flushes.
func (h *backendHandler) writeBody(st *rpcState, obs *BackendObs, rw http.ResponseWriter, body []byte, rr *renderedResp) {
	bp := &st.plan.Backend
	rp := &bp.Resp
	var pieces [][]byte
	switch rp.WriteMode {
	case "frames", "prefix-payload":
		if rr != nil && len(rr.bounds) > 0 {
			start := 0
			for _, end := range rr.bounds {
				if end > len(body) {
					end = len(body)
				}
				if start >= end {
					break
				}
				if rp.WriteMode == "prefix-payload" && end-start > 5 {
					pieces = append(pieces, body[start:start+5], body[start+5:end])
				} else {
					pieces = append(pieces, body[start:end])
				}
				start = end
			}
			if start < len(body) {
				pieces = append(pieces, body[start:])
			}
		} else if len(body) > 0 {
			pieces = [][]byte{body}
		}
	case "sizes":
		off, i := 0, 0
		for off < len(body) && len(rp.WriteSizes) > 0 {
			n := rp.WriteSizes[i%len(rp.WriteSizes)]
			i++
			if n < 1 {
				n = 1
			}
			if off+n > len(body) {
				n = len(body) - off
			}
			pieces = append(pieces, body[off:off+n])
			off += n
		}
		if off < len(body) {
			pieces = append(pieces, body[off:])
		}
	default:
		if len(body) > 0 {
			pieces = [][]byte{body}
		}
	}
	flusher, _ := rw.(http.Flusher)
	written := 0
	for i, p := range pieces {
		if rp.EmptyWrites {
			if _, err := rw.Write(nil); err != nil {
				obs.WriteErrs = append(obs.WriteErrs, err.Error())
			}
		}
		if bp.PanicAt == "mid-body" && i == len(pieces)/2 {
			obs.Panicked = true
			panic(simPanic{"mid-body"})
		}
		n, err := rw.Write(p)
		written += n
		if err != nil {
			obs.WriteErrs = append(obs.WriteErrs, err.Error())
			return
		}
		if n != len(p) {
			obs.problem("Write returned n=%d for %d bytes without error", n, len(p))
		}
		if rp.FlushEvery > 0 && (i+1)%rp.FlushEvery == 0 && flusher != nil {
			flusher.Flush()
			obs.Flushes++
		}
		if st.world.Aborting() {
			return
		}
	}
}

// pingpong: read one request message, answer one response message, repeat; then end.
func (h *backendHandler) pingpong(st *rpcState, obs *BackendObs, rw http.ResponseWriter, rd *reqReader) {
	rp := &st.plan.Backend.Resp
	w := st.world
	sent := 0
	headersOut := false
	md := h.schema.methodByFullName(obs.RPCMethod)
	_ = md
	split := st.plan.Backend.SplitReader
	readerDone := !split
	var readerTok hbToken
	if split {
		w.Spawn(st.name+".hreader", func() {
			defer func() { readerTok.release(); readerDone = true }()
			for rd.readSome() {
				readerTok.release() // each message is handed to the writer through a channel in a real handler
			}
		})
		defer func() {
			w.Block("handler.join", func() bool { return readerDone })
			readerTok.acquire()
		}()
	}
	// writeMsg sends response message i (headers first if this is the first one) and says whether it went out
	writeMsg := func(i int) bool {
		rr := h.renderResponse(st, obs, nil, []MsgSpec{rp.Msgs[i]})
		// strip the end frame: in ping-pong the end is written after the loop
		body := rr.body
		if len(rr.bounds) > 0 {
			body = rr.body[:rr.bounds[0]]
		}
		if !headersOut {
			for k, v := range rr.headers {
				rw.Header()[k] = append([]string(nil), v...)
			}
			headersOut = true
		}
		if _, err := rw.Write(body); err != nil {
			obs.WriteErrs = append(obs.WriteErrs, err.Error())
			return false
		}
		if rp.FlushEvery > 0 {
			if f, ok := rw.(http.Flusher); ok {
				f.Flush()
			}
		}
		return true
	}
	greeted := 0
	if st.plan.Backend.ServerFirst && len(rp.Msgs) > 0 {
		// the handler speaks first: nothing has been read yet (the client is waiting for this message)
		if writeMsg(0) {
			greeted = 1
			w.Logf("backend.greeting", "")
		}
	}
	for {
		// read until one more complete frame is available or the body ends
		for {
			frames, _ := splitFrames(obs.Body)
			if len(frames) > sent || rd.done {
				break
			}
			if split {
				if !w.Block("hwriter.await-ping", func() bool { fr, _ := splitFrames(obs.Body); return len(fr) > sent || rd.done }) {
					break
				}
				readerTok.acquire()
				continue
			}
			rd.readSome()
		}
		frames, _ := splitFrames(obs.Body)
		if len(frames) <= sent {
			break
		}
		if sent+greeted >= len(rp.Msgs) {
			// nothing more to say; drain
			if split {
				w.Block("hwriter.drain", func() bool { return rd.done })
				readerTok.acquire()
			} else {
				rd.readAll()
			}
			break
		}
		if !writeMsg(sent + greeted) {
			break
		}
		sent++
		w.Logf("backend.pong", "%d", sent)
	}
	h.decodeRequest(obs)
	obs.SentMsgs = sent + greeted
	// the end: render with no messages, write only the tail
	var override *ErrSpec
	if len(obs.Undecodable) > 0 && !st.plan.Backend.Lenient {
		override = &ErrSpec{Code: 3, Msg: "backend: " + obs.Undecodable[0]}
	}
	rr := h.renderResponse(st, obs, override, []MsgSpec{})
	if !headersOut {
		h.writeResponse(st, obs, rw, rr, override == nil)
		return
	}
	if len(rr.body) > 0 {
		if _, err := rw.Write(rr.body); err != nil {
			obs.WriteErrs = append(obs.WriteErrs, err.Error())
		}
	}
	for _, kv := range rr.trailers {
		rw.Header().Add(http.TrailerPrefix+kv[0], kv[1])
	}
	obs.Responded = true
}

// duplex: a reader sub-task and a writer sub-task share the handler's request and writer. Like a real bidi handler
// it ends the RPC only when both are done, and fails it in its own protocol if its reader failed.
func (h *backendHandler) duplex(st *rpcState, obs *BackendObs, rw http.ResponseWriter, rd *reqReader) {
	w := st.world
	readerDone, writerDone := false, false
	var readerTok, writerTok hbToken // what a WaitGroup / channel gives a real handler that joins its goroutines
	w.Spawn(st.name+".hreader", func() {
		defer func() { readerTok.release(); readerDone = true }()
		rd.readAll()
	})
	w.Spawn(st.name+".hwriter", func() {
		defer func() { writerTok.release(); writerDone = true }()
		defer func() {
			if r := recover(); r != nil {
				if _, ok := r.(simPanic); !ok {
					st.Panics = append(st.Panics, fmt.Sprintf("%v", r))
				}
			}
		}()
		// messages first, without the end of the stream
		rr := h.renderResponse(st, obs, nil, nil)
		body := rr.body
		if obs.Stream && obs.Protocol != ProtoGRPC && len(rr.bounds) > rr.nmsgs {
			body = rr.body[:rr.prefixes[len(rr.prefixes)-1]]
		}
		for k, v := range rr.headers {
			rw.Header()[k] = append([]string(nil), v...)
		}
		rw.WriteHeader(rr.status)
		h.writeBody(st, obs, rw, body, rr)
		obs.SentMsgs = rr.nmsgs
		if st.plan.Backend.CloseBody == "writer-early" {
			// the side that writes gives up on the request while the other goroutine may be in the middle of a Read
			// (connect-go closes the request body when a bidi handler returns; net/http allows Close during Read)
			_ = rd.body.(io.Closer).Close()
		}
		w.Block("hwriter.await-reader", func() bool { return readerDone })
		readerTok.acquire()
		h.decodeRequest(obs)
		var override *ErrSpec
		if len(obs.Undecodable) > 0 && !st.plan.Backend.Lenient {
			override = &ErrSpec{Code: 3, Msg: "backend: " + obs.Undecodable[0]}
		}
		end := h.renderResponse(st, obs, override, []MsgSpec{})
		if override == nil && st.plan.Backend.Resp.Err != nil {
			end = h.renderResponse(st, obs, st.plan.Backend.Resp.Err, []MsgSpec{})
		}
		if len(end.body) > 0 {
			if _, err := rw.Write(end.body); err != nil {
				obs.WriteErrs = append(obs.WriteErrs, err.Error())
			}
		}
		for _, kv := range end.trailers {
			rw.Header().Add(http.TrailerPrefix+kv[0], kv[1])
		}
		obs.Responded = true
	})
	w.Block("handler.join", func() bool { return readerDone && writerDone })
	readerTok.acquire()
	writerTok.acquire()
}

var _ = protoreflect.Name("")
