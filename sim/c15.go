package verifsim

import (
	"fmt"
	"net/url"
	"os"
	"strings"

	"connectrpc.com/vanguard"
	"google.golang.org/protobuf/proto"
	"google.golang.org/protobuf/reflect/protoreflect"
	"google.golang.org/protobuf/reflect/protoregistry"
)

// C15: the outcome of an RPC is independent of earlier traffic on the same Transcoder.

// spoil turns a well-formed RPC into one of the hostile history entries.
func spoil(c *Chooser, r *RPCPlan, kind string) {
	switch kind {
	case "cut":
		r.Client.Faults = []Fault{{Kind: Pick(c, "cut-eof", "cut-err"), At: c.Range(1, 30)}}
		if !enveloped(r.Client.Form) && c.Bool() {
			r.Client.DeclareCL = "none" // a body of unknown length is buffered to be measured
		}
	case "bad-validation":
		r.Client.Timeout = "zz"
	case "corrupt-compressed":
		r.Client.Compression = Pick(c, "gzip", "deflate")
		for i := range r.Client.Msgs {
			r.Client.Msgs[i].RawPayload = append([]byte{0x1f, 0x8b, 0x08}, c.Bytes(c.Range(4, 40))...)
			one := 1
			r.Client.Msgs[i].Flags = &one
		}
		if !enveloped(r.Client.Form) {
			r.Client.RawBody, r.Client.HasRawBody = append([]byte{0x1f, 0x8b, 0x08}, c.Bytes(20)...), true
		}
	case "over-limit":
		if len(r.Client.Msgs) > 0 {
			r.Client.Msgs[0].Data = bigMsg(3<<20, "zero", c)
			r.Client.Deliveries, r.Backend.ReadSizes = nil, nil // megabytes one byte at a time only burn steps
			if !enveloped(r.Client.Form) && c.Bool() {
				r.Client.DeclareCL = "none"
			}
		}
	case "backend-panic":
		r.Backend.PanicAt = Pick(c, "before-headers", "after-headers", "mid-body")
	case "client-gone":
		r.Client.WriterFailAfter = c.Range(1, 20)
	case "backend-garbage":
		genBackendMisbehaviour(c, &r.Backend.Resp)
	case "lib-fault":
		// a codec or (de)compressor call fails in the middle of this RPC (allocation failure, codec bug, poisoned dictionary ...)
		r.LibFaults = []Fault{{Kind: Pick(c, "marshal", "unmarshal", "comp.write", "comp.close", "decomp.reset", "decomp.read", "decomp.close"), At: c.Range(1, 3)}}
	case "end-garbage":
		// the end of the stream (trailer frame, end-of-stream message) is where the adapters give buffers back
		applyBackendMisbehaviour(c, &r.Backend.Resp, Pick(c, "end-garbage", "end-garbage", "flag-any", "omit-end"))
	case "undecodable":
		for i := range r.Client.Msgs {
			r.Client.Msgs[i].RawPayload = c.Bytes(c.Range(1, 30))
		}
	case "corrupt-response":
		r.Backend.Resp.Compression = "gzip"
		r.Client.Accept = []string{"gzip"}
		for i := range r.Backend.Resp.Msgs {
			r.Backend.Resp.Msgs[i].RawPayload = append([]byte{0x1f, 0x8b, 0x08}, c.Bytes(c.Range(4, 40))...)
			one := 1
			r.Backend.Resp.Msgs[i].Flags = &one
		}
	}
}

var spoilKinds = []string{"cut", "bad-validation", "corrupt-compressed", "over-limit", "backend-panic", "client-gone", "backend-garbage", "end-garbage", "undecodable", "corrupt-response", "lib-fault"}

// probeView is what is compared between the used and the fresh transcoder.
func probeView(st *rpcState) string {
	var sb strings.Builder
	if st.Outcome != nil {
		sb.WriteString(st.Outcome.canon())
	}
	fmt.Fprintf(&sb, "|panic=%q|backends=%d", st.ServePanic, len(st.Backend))
	for _, b := range st.Backend {
		fmt.Fprintf(&sb, "|%s %s %s %s ct=%q comp=%q msgs=%x und=%d readerr=%q hdr=%s", b.Method, b.Path, b.RawQuery, b.Protocol, b.Header.Get("Content-Type"), b.Compression, b.Msgs, len(b.Undecodable), b.ReadErr, canonHeader(appHeadersH(b.AppHeaders)))
	}
	return sb.String()
}

func appHeadersH(m map[string][]string) map[string][]string { return m }

func c15Oracle(p *Plan) *Verdict {
	v := &Verdict{}
	n := len(p.RPCs)
	facts := map[string]string{"pool": p.Pool.Policy, "poison": fmt.Sprint(p.Pool.Poison)}
	if n == 0 {
		return v
	}
	used := Run(p)
	v.absorb(used)
	if used.World != nil {
		v.Trace = used.World.Log
	}
	fresh := p.clone()
	fresh.RPCs = fresh.RPCs[n-1:]
	fresh.Sched = SchedPlan{Policy: "seq"}
	fr := Run(fresh)
	v.absorb(fr)
	probeFacts := scenarioFacts(fresh, 0)
	v.Class = fmt.Sprintf("hist=%d/%s>%s/%s/pool=%s", n-1, probeFacts["form"], probeFacts["target"], probeFacts["path"], p.Pool.Policy)
	if used.BuildErr != "" || fr.BuildErr != "" {
		return v
	}
	v.Nontrivial = n > 1
	if p.Note != "" {
		v.probe("shape-" + p.Note)
		if os.Getenv("VSIM_DEBUG_SHAPE") == p.Note {
			v.violate("debug-shape", facts, "plan of shape %s (debugging aid, never set by the driver)", p.Note)
		}
	}
	for i := 0; i < n-1; i++ {
		v.fault("history-" + p.RPCs[i].histKind())
	}
	if used.Env.pool.CrossRPCReuse > 0 {
		v.probe("buffer-reused-across-rpcs")
	}
	if used.Deadlock || used.StepCap {
		v.violate("hang-after-history", facts, "the world with history did not terminate: %v", used.World.DeadlockAt)
		return v
	}
	a, b := used.RPCs[n-1], fr.RPCs[0]
	if a.Rejected != "" || b.Rejected != "" {
		return v
	}
	va, vb := probeView(a), probeView(b)
	if va != vb {
		f := copyFacts(facts)
		f["form"], f["target"], f["path"] = probeFacts["form"], probeFacts["target"], probeFacts["path"]
		v.violate("probe-differs", f, "the probe's result on the used transcoder differs from a fresh one (history of %d RPCs):\nused:  %s\nfresh: %s", n-1, truncate(va, 900), truncate(vb, 900))
	}
	for _, s := range used.Env.pool.Violations {
		f := copyFacts(facts)
		f["kind"] = problemClass(s)
		v.violate("pool-misuse", f, "buffer pool: %s", s)
	}
	for _, s := range used.Env.Misuse {
		f := copyFacts(facts)
		f["kind"] = problemClass(s)
		v.violate("compressor-misuse", f, "%s", s)
	}
	return v
}

func (r *RPCPlan) histKind() string {
	switch {
	case len(r.LibFaults) > 0:
		return "lib-fault"
	case len(r.Client.Faults) > 0:
		return "cut"
	case r.Client.Timeout == "zz":
		return "bad-validation"
	case r.Backend.PanicAt != "":
		return "backend-panic"
	case r.Client.WriterFailAfter > 0:
		return "client-gone"
	case r.Client.HasRawBody:
		return "corrupt-compressed"
	}
	for _, m := range r.Client.Msgs {
		if m.RawPayload != nil {
			return "corrupt-or-undecodable-request"
		}
		if len(m.Data) > 1<<20 {
			return "over-limit"
		}
	}
	for _, m := range r.Backend.Resp.Msgs {
		if m.RawPayload != nil {
			return "corrupt-response"
		}
	}
	if k := r.Backend.Resp.noteKind(); k != "plain" {
		return "backend-" + k
	}
	return "valid"
}

func init() {
	register(&Check{
		ID:    "C15",
		Level: "exploration",
		Rule: "one Transcoder (the stream-shape service, in a third of the worlds also the REST-bound parameter service) and one set of pools; a drawn history of 0..20 earlier RPCs run to completion one after another (valid, failed validation, body cut mid-message, over the limit, corrupt compressed request, undecodable request, " +
			"corrupt compressed response, protocol-breaking backend, backend panic, client gone mid-response, a failing codec or (de)compressor call) followed by a probe RPC; the same probe runs on a freshly built Transcoder. Two directed history classes: side-effect-free calls that overflow a small GET URL limit before a larger call that fits; and calls of a service with a generous limit that leave buffers of many kilobytes in the pool before a call of a second service, with a small limit, whose backend answers with more than that limit. Pool policies are adversarial (most-recently-released first, " +
			"random, fifo; released buffers keep poison as their stale content in most runs so that a missing reset hands recognisable garbage to the next user). oracle: canonical probe outcome and backend view are equal; no pool or compressor misuse. " +
			"distinct = (history length, probe form>target/path, pool policy, schedule hash); non-trivial = the history is not empty",
		Gen: func(c *Chooser, tier string) *Plan {
			svc := genService(c, "sim")
			svc.MaxMsg = 1 << 20
			maxHist := 8
			if tier == "thorough" {
				maxHist = 20
			}
			if c.Prob(0.06) {
				return genGetMemoPlan(c)
			}
			if c.Prob(0.08) {
				if p := genWarmPoolPlan(c); p != nil {
					return p
				}
			}
			nh := Pick(c, 0, 1, 2, 3, c.Intn(maxHist+1))
			cfg := ConfigPlan{Services: []ServicePlan{svc}}
			// a third of the worlds also serve the REST-bound parameter service, and a few of its methods take part in the
			// history and the probe (requests assembled from path, query and partial bodies rather than one whole message)
			var restPool []restCase
			if c.Prob(0.35) {
				s2 := genService(c, "sim2")
				// the limit is a per-service option too: a message that fits one service's limit and not the other's
				s2.MaxMsg = Pick(c, uint32(1<<20), 1<<20, 2048, 600)
				if c.Bool() {
					s2.Codecs = nil
				}
				// the two services may resolve types differently (per-service option): what one of them cannot name must not
				// become the other's problem later
				s2.Via = Pick(c, "", "", "notfound", "fresh-notfound", "private")
				cfg.Services = append(cfg.Services, s2)
				for i, n := 0, c.Range(1, 3); i < n; i++ {
					restPool = append(restPool, restMethods[c.Intn(11)]) // the sim2 methods
				}
			}
			draw := func() *RPCPlan {
				if len(restPool) > 0 && c.Prob(0.6) {
					r := genRESTClientRPC(c, &cfg, restPool[c.Intn(len(restPool))])
					if r != nil && len(r.Client.RestJSON) > 0 && c.Prob(0.4) {
						r.Client.Compression = Pick(c, "gzip", "deflate")
					}
					if r != nil && c.Prob(0.25) {
						r.Backend.Resp.Msgs, r.Backend.Resp.Err = nil, genErrSpec(c)
					}
					return r
				}
				return genRPC(c, ScenOpts{MaxMsgs: 3, MaxBytes: 400, Segment: true})
			}
			var rpcs []RPCPlan
			for i := 0; i < nh; i++ {
				r := draw()
				if r == nil {
					continue
				}
				if c.Prob(0.65) {
					spoil(c, r, spoilKinds[c.Intn(len(spoilKinds))])
				}
				rpcs = append(rpcs, *r)
			}
			probe := draw()
			if probe == nil {
				return nil
			}
			note := ""
			if len(cfg.Services) == 2 && cfg.Services[1].Via != "" && cfg.Services[1].Via != "private" && c.Prob(0.5) {
				// what one service's resolver cannot name must not be lost to the other: JSON traffic on the parameter service
				// (whose resolver knows nothing here) first, then a JSON client of the stream-shape service (global types) is
				// told an error with typed details
				if h := genRESTClientRPC(c, &cfg, restMethods[c.Intn(11)]); h != nil {
					rpcs = append([]RPCPlan{*h}, rpcs...) // first: before anything else has needed the JSON codec
				}
				if pr := genRPC(c, ScenOpts{MaxMsgs: 1, MaxBytes: 40, NoErr: true, Forms: []string{FormREST}, Methods: []string{"RestAll", "RestAllNSE"}}); pr != nil {
					pr.Client.Codec = "json"
					pr.Backend.Resp.Msgs = nil
					// (a detail type every binary knows: the point is which service's resolver is asked, not whether the type exists)
					pr.Backend.Resp.Err = &ErrSpec{Code: c.Range(1, 16), Msg: "typed details", Details: []Detail{
						{Type: "google.protobuf.StringValue", Value: []byte{0x0a, 0x02, 'o', 'k'}}, {Type: "google.protobuf.Int32Value", Value: []byte{0x08, 0x07}}}}
					pr.Backend.Resp.ErrInHeaders = c.Bool()
					probe = pr
					note = "resolver-isolation"
				}
			}
			if c.Prob(0.15) {
				spoil(c, probe, Pick(c, "corrupt-compressed", "undecodable", "backend-garbage", "corrupt-response"))
			}
			rpcs = append(rpcs, *probe)
			return &Plan{Config: cfg, RPCs: rpcs, Sched: genSched(c), Note: note,
				Pool: PoolPlan{Policy: Pick(c, "lifo", "lifo", "random", "fifo"), Seed: c.Uint64(), Poison: c.Prob(0.6)}, StepCap: 400000}
		},
		Oracle:      c15Oracle,
		Components:  stdComponents,
		Assumptions: []string{"state that could leak lives in the buffer pool (simulated free list behind the hook) and in pooled compressors/decompressors (real gzip/zlib objects behind misuse-detecting wrappers, recycled by the real sync.Pool)"},
	})
}

// genWarmPoolPlan: what a pooled buffer grew to under one service's limit must not decide what another service accepts.
// Two services on one Transcoder, one with a generous limit and one with a small limit L. History: calls of the generous
// service that move messages of many kilobytes through a re-encoding path, so that large buffers go back to the pool.
// Probe: a call of the small-limit service whose backend answers with something larger than L (an end-of-stream frame
// with bulky trailing metadata on the re-framing path, or a response frame whose size in the backend's codec exceeds L
// on the re-encoding path). Whatever the verdict on that is, it is the same on a fresh Transcoder.
func genWarmPoolPlan(c *Chooser) *Plan {
	L := Pick(c, 1024, 2048, 4096)
	small := ServicePlan{Schema: "sim", MaxMsg: uint32(L), Protocols: []string{Pick(c, ProtoGRPCWeb, ProtoConnect, ProtoGRPC)}, Codecs: []string{Pick(c, "proto", "json")}, NoCompression: true}
	big := ServicePlan{Schema: "sim2", MaxMsg: 1 << 20, Protocols: []string{Pick(c, ProtoGRPC, ProtoGRPCWeb, ProtoConnect)}, Codecs: []string{"proto"}, NoCompression: true}
	cfg := ConfigPlan{Services: []ServicePlan{small, big}}
	pvMsg := func(n int) []byte {
		md := getSchema("sim2").method("BodyStar").Input()
		m := newMessageFor(md)
		fd := md.Fields().ByName("string_value")
		if fd == nil {
			return nil
		}
		m.ProtoReflect().Set(fd, protoreflect.ValueOfString(strings.Repeat("w", n)))
		return canonBytes(m)
	}
	strMsg := func(n int) []byte {
		b := appendVarint([]byte{0x72}, uint64(n)) // AllTypes.string_value
		return append(b, strings.Repeat("s", n)...)
	}
	var rpcs []RPCPlan
	for i, k := 0, c.Range(1, 3); i < k; i++ {
		req, resp := pvMsg(c.Range(6000, 40000)), pvMsg(c.Range(6000, 40000))
		if req == nil {
			return nil
		}
		rpcs = append(rpcs, RPCPlan{Client: ClientPlan{Form: FormConnectUnary, HTTP: Pick(c, 1, 2), Service: "sim2", Method: "BodyStar", Codec: "json", Msgs: []MsgSpec{{Data: req}}},
			Backend: BackendPlan{Resp: RespPlan{Msgs: []MsgSpec{{Data: resp}}, TrailerStyle: "prefix"}}})
	}
	probe := RPCPlan{Client: ClientPlan{Form: Pick(c, FormGRPC, FormGRPCWeb, FormConnectStream), HTTP: 2, Service: "sim", Method: "ServerStream", Codec: Pick(c, "proto", "json"), Msgs: []MsgSpec{smallMsg()}},
		Backend: BackendPlan{Resp: RespPlan{Msgs: []MsgSpec{smallMsg()}, TrailerStyle: "prefix"}}}
	if c.Bool() {
		// the end of the stream is what is large
		n := c.Range(L/2, 3*L)
		probe.Backend.Resp.Trailers = [][2]string{{"X-Bulk", strings.Repeat("t", n)}}
	} else {
		probe.Backend.Resp.Msgs = []MsgSpec{{Data: strMsg(c.Range(L/2, 3*L))}}
	}
	rpcs = append(rpcs, probe)
	return &Plan{Config: cfg, RPCs: rpcs, Sched: SchedPlan{Policy: "seq"}, Note: "warm-pool",
		Pool: PoolPlan{Policy: Pick(c, "lifo", "lifo", "random", "fifo"), Seed: c.Uint64(), Poison: c.Bool()}, StepCap: 400000}
}

// genGetMemoPlan: whether a message still fits a GET URL is a function of that message alone. History: side-effect-free
// calls whose message does not fit the service's URL limit once it is escaped (characters that triple in a query string),
// so that they are re-issued as POST; probe: a call whose message is at least as large when encoded, but fits.
func genGetMemoPlan(c *Chooser) *Plan {
	strMsg := func(s string) []byte {
		b := appendVarint([]byte{0x72}, uint64(len(s))) // AllTypes.string_value
		return append(b, s...)
	}
	// the length of the GET URL a message needs, estimated with the service's own JSON codec (it emits every field)
	urlLen := func(data []byte) int {
		m := newMessageFor(getSchema("sim").method("UnaryNSE").Input())
		if proto.Unmarshal(data, m) != nil {
			return -1
		}
		b, err := vanguard.NewJSONCodec(protoregistry.GlobalTypes).MarshalAppend(nil, m)
		if err != nil {
			return -1
		}
		return len("/sim.v1.SimService/UnaryNSE?connect=v1&encoding=json&message=") + len(url.QueryEscape(string(b)))
	}
	n1 := c.Range(150, 250)
	n2 := c.Range(n1, n1+80)
	hist := strMsg(strings.Repeat(Pick(c, "=", "&", "%", "+"), n1))
	probe := strMsg(strings.Repeat("a", n2))
	lo, hi := urlLen(probe), urlLen(hist)
	if lo < 0 || hi-lo < 200 {
		return nil
	}
	L := (lo + hi) / 2 // the probe fits with room to spare, the history does not by as much
	svc := ServicePlan{Schema: "sim", MaxMsg: 1 << 20, Protocols: []string{ProtoConnect}, Codecs: []string{"json"}, NoCompression: true, MaxGetURL: uint32(L)}
	get := func(data []byte) RPCPlan {
		return RPCPlan{Client: ClientPlan{Form: FormConnectGet, HTTP: Pick(c, 1, 2), Service: "sim", Method: "UnaryNSE", Codec: "proto", Msgs: []MsgSpec{{Data: data}}},
			Backend: BackendPlan{Resp: RespPlan{Msgs: []MsgSpec{smallMsg()}, TrailerStyle: "prefix"}}}
	}
	var rpcs []RPCPlan
	for i, k := 0, c.Range(1, 3); i < k; i++ {
		rpcs = append(rpcs, get(hist))
	}
	rpcs = append(rpcs, get(probe))
	return &Plan{Config: ConfigPlan{Services: []ServicePlan{svc}}, RPCs: rpcs, Sched: SchedPlan{Policy: "seq"}, Note: "get-url",
		Pool: PoolPlan{Policy: "lifo"}, StepCap: 400000}
}
