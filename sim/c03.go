package verifsim

import (
	"fmt"
	"strings"
)

// checkClientResponse: C03 - valid response in the client's own protocol with exactly one outcome.
func checkClientResponse(v *Verdict, p *Plan, r *RunResult, ri int, facts map[string]string) {
	st := r.RPCs[ri]
	if st.Rejected != "" || st.Outcome == nil {
		return
	}
	o := st.Outcome
	if st.ServePanic != "" {
		return // C11's business; the response of a crashed handler is whatever net/http makes of it
	}
	if st.plan.Client.WriterFailAfter > 0 || st.plan.Client.CancelAtStep > 0 {
		return // the client went away; it observes nothing
	}
	if len(st.Backend) > 0 && st.Backend[0].Panicked {
		return
	}
	seen := map[string]bool{}
	for _, prob := range o.Problems {
		k := problemClass(prob)
		if seen[k] {
			continue
		}
		seen[k] = true
		f := copyFacts(facts)
		rule := classifyResponseProblem(prob, k, f)
		if seen[rule] && rule != "invalid-client-response" {
			continue
		}
		seen[rule] = true
		v.violate(rule, f, "%s (status %d, content-type %q)", prob, o.HTTPStatus, o.ContentType)
	}
	if o.Kind != "invalid" && o.Terminals != 1 {
		v.violate("terminal-count", facts, "response carries %d terminal dispositions", o.Terminals)
	}
	if o.Kind == "invalid" && len(o.Problems) == 0 {
		v.violate("invalid-client-response", facts, "response is not valid for %s", st.plan.Client.Form)
	}
}

// genBackendMisbehaviour perturbs a well-formed response script (used by C03, C09, C11).
func genBackendMisbehaviour(c *Chooser, rp *RespPlan) string {
	return applyBackendMisbehaviour(c, rp, Pick(c, "cut", "omit-end", "end-garbage", "cl-wrong", "cl-exact", "bare", "flag", "flag-any", "len", "status-text", "raw-garbage", "bad-ct", "cut-plus-end", "bare-any", "after-end"))
}

func applyBackendMisbehaviour(c *Chooser, rp *RespPlan, k string) string {
	switch k {
	case "cut":
		rp.CutAt = c.Range(1, 40)
	case "cut-plus-end":
		rp.CutAt = c.Range(1, 40)
		rp.CutPlusEnd = true
	case "omit-end":
		rp.OmitEnd = true
	case "after-end":
		// the body goes on after its end-of-stream frame: a stray byte, another message, a second end
		rp.AfterEnd = Pick(c, []byte{0}, []byte("x"), envelope(0, []byte{0x18, 0x07}), envelope(2, []byte("{}")), envelope(0x80, []byte("grpc-status: 0\r\n")), c.Bytes(c.Range(1, 12)))
		if c.Bool() {
			rp.WriteMode = "whole" // the end frame and what follows it arrive in one Write
		}
	case "end-garbage":
		rp.EndRaw = Pick(c, []byte("{"), []byte("not json"), []byte("grpc-status 0"), []byte{0xff, 0x00}, []byte(`{"error":{"code":"nope"}}`), []byte(`{"error":17}`), []byte(""))
	case "cl-wrong":
		rp.DeclareCL = Pick(c, "+1", "-1", "+7", "=0", "=5", "=6", "=99999", "=abc", "=-4")
	case "cl-exact":
		rp.DeclareCL = "exact"
	case "bare":
		rp.BareStatus = Pick(c, 400, 401, 403, 404, 418, 429, 500, 502, 503, 504)
		rp.BareBody = Pick(c, []byte(nil), []byte("oops"), []byte(`{"code":5,"message":"nf"}`), []byte(`{"code":"not_found","message":"x"}`), []byte("<html>"))
		rp.BareCT = Pick(c, "", "text/plain", "application/json", "text/html")
	case "flag":
		// flag values that are invalid in every enveloped protocol (other values merely change what the frame means)
		if len(rp.Msgs) > 0 {
			f := Pick(c, 4, 0x40, 0x7c, 0x44, 0x08)
			rp.Msgs[c.Intn(len(rp.Msgs))].Flags = &f
		}
	case "flag-any":
		if len(rp.Msgs) > 0 && c.Bool() {
			f := c.Intn(256)
			rp.Msgs[c.Intn(len(rp.Msgs))].Flags = &f
		} else {
			f := c.Intn(256)
			rp.EndFlags = &f
		}
	case "bare-any":
		rp.BareStatus = Pick(c, 200, 201, 204, 301, 304, 400, 404, 500, 599, 999)
		rp.BareBody = Pick(c, []byte(nil), []byte("oops"), c.Bytes(20))
		rp.BareCT = Pick(c, "", "text/plain", "application/json", "application/grpc", "application/connect+proto")
	case "len":
		if len(rp.Msgs) > 0 {
			rp.Msgs[c.Intn(len(rp.Msgs))].LenDelta = Pick(c, 1, -1, 5, 1000, 1<<30)
		}
	case "status-text":
		rp.GRPCStatusText = Pick(c, "17", "18", "99", "2147483647", "4294967295", "4294967296", "-1", "abc", "", "0x1", " 5", "5 ")
		if rp.Err == nil {
			rp.Err = &ErrSpec{Code: 2, Msg: "x"}
		}
	case "raw-garbage":
		rp.RawBody = c.Bytes(c.Range(0, 40))
	case "ok-no-message":
		// success without the one response message a unary method owes (only meaningful for methods without server streaming)
		rp.Msgs, rp.Err = nil, nil
	case "bad-ct":
		rp.ContentType = Pick(c, "", "text/plain", "application/json", "application/grpc", "application/grpc+", "application/connect+", "application/proto", "application/x-unknown", "application/grpc-web+json")
	}
	return k
}

func c03Oracle(p *Plan) *Verdict {
	v := &Verdict{}
	r := Run(p)
	v.absorb(r)
	if r.World != nil {
		v.Trace = r.World.Log
	}
	facts := scenarioFacts(p, 0)
	if p.Note != "" {
		facts["backend"] = p.Note
	}
	v.Class = fmt.Sprintf("%s>%s/%s/%s/%s", facts["form"], facts["target"], facts["path"], facts["shape"], p.Note)
	if r.BuildErr != "" {
		return v
	}
	if p.Note != "" {
		v.fault("backend-" + p.Note)
	}
	st := r.RPCs[0]
	if st.Outcome != nil {
		v.Nontrivial = true
		v.probe("outcome-" + st.Outcome.Kind)
	}
	if r.Deadlock || r.StepCap {
		v.Incidental = append(v.Incidental, "hang")
		return v
	}
	if facts["path"] == "passthrough" && (p.Note != "" || p.RPCs[0].Backend.Resp.StrayHTTPTrailer) {
		return v // the transcoder is not in the data path; C13 checks that it forwards unchanged (a misbehaving backend's bytes included)
	}
	if p.Note == "ok-no-message" {
		if b := st.backend(); b != nil && !b.Stream && b.Codec == p.RPCs[0].Client.Codec {
			// an un-enveloped backend that answers with zero bytes in the client's own codec: the body is handed on as it is
			// (nothing is decoded on that path), and whether zero bytes are a message is between that backend and its codec
			v.probe("empty-body-same-codec-not-judged")
			return v
		}
	}
	checkClientResponse(v, p, r, 0, facts)
	return v
}

func init() {
	register(&Check{
		ID:    "C03",
		Level: "exploration",
		Rule: "seeded single-RPC scenarios; half well-formed (success, error before/after k messages, trailers-only, both trailer styles, per-message compression flags, declared content length), " +
			"half with one scripted backend misbehaviour (cut mid-frame, missing end, garbage end frame, wrong Content-Length, bare HTTP status with arbitrary body, bad flags/lengths, non-numeric or out-of-range grpc-status, " +
			"garbage body, wrong content-type, success without the one message a unary method owes), and an eighth with an end of RPC (error message, trailing metadata) larger than a small message limit; the response-writer event history goes through a strict validator for the client's own protocol and the exactly-one-terminal count; " +
			"distinct = (form>target/path/shape/misbehaviour, schedule hash); non-trivial = a response was produced",
		Gen: func(c *Chooser, tier string) *Plan {
			p := genScenario(c, ScenOpts{MaxMsgs: 3, MaxBytes: 100, Segment: c.Prob(0.3)})
			if p == nil {
				return nil
			}
			if c.Prob(0.12) {
				// the end of the RPC is larger than the service's message limit (long error message or a lot of trailing
				// metadata under a small limit): it still has to be exactly one well-formed disposition
				svc := &p.Config.Services[0]
				L := Pick(c, 512, 2048, 4096)
				rp := &p.RPCs[0].Backend.Resp
				rc := &p.RPCs[0]
				n := refNegotiate(svc, rc.Client.Form, rc.Client.Codec, rc.Client.Compression)
				fits := true
				for _, ms := range append(append([]MsgSpec{}, p.RPCs[0].Client.Msgs...), rp.Msgs...) {
					for _, codec := range []string{rc.Client.Codec, n.Codec} {
						if sizeUnder(codec, ms.Data) > L || sizeUnderRef(codec, ms.Data) > L {
							fits = false
						}
					}
				}
				if fits {
					svc.MaxMsg = uint32(L)
					if c.Bool() {
						rp.Err = &ErrSpec{Code: c.Range(1, 16), Msg: strings.Repeat("long error text ", L/16+c.Range(1, 8))}
						if c.Bool() {
							rp.Msgs = nil
						}
					} else {
						for i := 0; i < L/32+4; i++ {
							rp.Trailers = append(rp.Trailers, [2]string{fmt.Sprintf("X-Bulk-%d", i), strings.Repeat("v", 24)})
						}
					}
					p.Note = "end-over-limit"
					return p
				}
			}
			if c.Prob(0.12) {
				// the *request* stream goes bad (invalid envelope flags, a payload that does not inflate) in front of a handler
				// that does not care and keeps answering, several messages per Write or in pieces that end inside a message:
				// whenever the transcoder ends the RPC with its own error, that end is the one disposition and nothing follows it
				q := genScenario(c, ScenOpts{MaxMsgs: 3, MaxBytes: 60, Segment: true, NoErr: true, Methods: []string{"Bidi"}, Forms: []string{FormGRPC, FormGRPCWeb, FormConnectStream}})
				if q != nil && len(q.RPCs[0].Client.Msgs) > 0 {
					rc := &q.RPCs[0]
					k := len(rc.Client.Msgs) - 1
					if c.Bool() || rc.Client.Compression == "" {
						f := Pick(c, 4, 0x40, 0x08, 0x7c)
						rc.Client.Msgs[k].Flags = &f
					} else {
						rc.Client.Msgs[k].RawPayload, rc.Client.Msgs[k].HasRaw, rc.Client.Msgs[k].Compressed = []byte("not compressed at all"), true, true
						one := 1
						rc.Client.Msgs[k].Flags = &one
					}
					rc.Backend.Lenient = true
					rc.Backend.Mode = Pick(c, "", "", "duplex")
					for len(rc.Backend.Resp.Msgs) < 2 {
						rc.Backend.Resp.Msgs = append(rc.Backend.Resp.Msgs, smallMsg())
					}
					rc.Backend.Resp.WriteMode, rc.Backend.Resp.WriteSizes = Pick(c, "", "sizes", "sizes"), Pick(c, []int{3}, []int{7, 50}, []int{1}, []int{6, 1000})
					rc.Backend.CloseBody = ""
					q.Note = "request-fault-lenient"
					return q
				}
			}
			if c.Bool() {
				// behaviours the transcoder can answer with a valid response: nothing malformed has been forwarded yet
				p.Note = applyBackendMisbehaviour(c, &p.RPCs[0].Backend.Resp, Pick(c, "cl-exact", "bare", "bad-ct", "omit-end", "end-garbage", "status-text", "flag", "ok-no-message", "after-end"))
			}
			return p
		},
		Directed: func(tier string) []*Plan {
			var ps []*Plan
			// backend declares Content-Length towards an enveloped client on the re-framing path
			for _, form := range []string{FormGRPC, FormGRPCWeb} {
				for _, n := range []int{1} {
					rp := okResp(n)
					rp.DeclareCL = "exact"
					p := basePlan(simSvc([]string{ProtoConnect}, []string{"proto"}, nil), simClient(form, "Unary", "proto", "", smallMsg()), BackendPlan{Resp: rp})
					p.Note = "cl-exact"
					ps = append(ps, p)
				}
			}
			return ps
		},
		Oracle:      c03Oracle,
		Components:  stdComponents,
		Assumptions: []string{"a bare HTTP error (status >= 400 without protocol framing) is accepted as a valid shape only for requests that never reached a handler or whose backend itself answered bare", "SimRW stands in for net/http's framing checks"},
	})
}

// classifyResponseProblem maps a validator complaint to a rule name (shared by C03 and C09 so that one
// defect has one name) and adds the facts that rule needs.
func classifyResponseProblem(prob, kind string, f map[string]string) string {
	switch {
	case strings.HasPrefix(prob, "stray HTTP trailers"):
		return "stray-http-trailers"
	case strings.Contains(prob, "multiple grpc-status values") || strings.HasPrefix(prob, "status signalled both"):
		return "conflicting-grpc-status"
	case strings.HasPrefix(prob, "body declared Content-Encoding") && strings.Contains(prob, "does not decompress"):
		f["dir"] = "response"
		return "raw-frame-declared-compressed"
	}
	f["kind"] = kind
	return "invalid-client-response"
}
