//go:build !race

package verifsim

import "time"

// baton is how the scheduler and a task hand control to each other. In the normal build it is a channel.
type baton struct{ ch chan byte }

func newBaton() *baton       { return &baton{ch: make(chan byte)} }
func (b *baton) send(x byte) { b.ch <- x }
func (b *baton) recv() byte  { return <-b.ch }
func (b *baton) close()      {}
func (b *baton) recvTimeout(d time.Duration) (byte, bool) {
	t := time.NewTimer(d)
	select {
	case x := <-b.ch:
		t.Stop()
		return x, true
	case <-t.C:
		return 0, false
	}
}

const raceMode = false
