package verifsim

import (
	"fmt"
	"strings"

	"connectrpc.com/vanguard"
	"google.golang.org/protobuf/proto"
	"google.golang.org/protobuf/reflect/protoregistry"
)

// C10: the message-size limit bounds buffering on every path.

const c10Slack = 64 << 10

func c10Bound(limit uint32) int64 { return 8*int64(limit) + c10Slack }

// sizeUnder returns the size of msg (canonical proto bytes of AllTypes) in the transcoder's own encoding of codec.
func sizeUnder(codec string, data []byte) int {
	m := newMessageFor(getSchema("sim").method("Unary").Input())
	if err := proto.Unmarshal(data, m); err != nil {
		return -1
	}
	switch codec {
	case "json":
		b, err := vanguard.NewJSONCodec(protoregistry.GlobalTypes).MarshalAppend(nil, m)
		if err != nil {
			return -1
		}
		return len(b)
	case "alt":
		return 1 + proto.Size(m)
	}
	return proto.Size(m)
}

// bigMsg builds AllTypes{bytes_value: n bytes} with the given fill.
func bigMsg(n int, fill string, c *Chooser) []byte {
	b := make([]byte, n)
	switch fill {
	case "random":
		copy(b, c.Bytes(n))
	case "text":
		for i := range b {
			b[i] = 'a' + byte(i%7)
		}
	}
	m := newMessageFor(getSchema("sim").method("Unary").Input())
	fd := m.ProtoReflect().Descriptor().Fields().ByName("bytes_value")
	m.ProtoReflect().Set(fd, protoreflectBytes(b))
	return canonBytes(m)
}

func c10Oracle(p *Plan) *Verdict {
	v := &Verdict{}
	r := Run(p)
	v.absorb(r)
	if r.World != nil {
		v.Trace = r.World.Log
	}
	full := scenarioFacts(p, 0)
	rc := &p.RPCs[0]
	svc := &p.Config.Services[0]
	L := int64(svc.maxMsg())
	dir := p.Note
	facts := map[string]string{"dir": dir, "path": full["path"], "rpath": full["rpath"], "client": clientKind(rc.Client.Form), "target": full["target"]}
	v.Class = fmt.Sprintf("%s/%s>%s/%s/%s/L=%d", dir, full["form"], full["target"], full["path"], full["rpath"], L)
	if r.BuildErr != "" || full["path"] == "passthrough" {
		return v
	}
	st := r.RPCs[0]
	if st.Rejected != "" || st.Outcome == nil || len(rc.Client.Msgs) != 1 || len(rc.Backend.Resp.Msgs) != 1 {
		return v
	}
	if cl := rc.Backend.Resp.DeclareCL; strings.HasPrefix(cl, "=") {
		var declared int
		fmt.Sscanf(cl[1:], "%d", &declared)
		if st.respLen <= declared {
			return v // the body is not longer than declared: an over-stated length is C09's subject, not a limit question
		}
	}
	v.Nontrivial = true
	if st.ServePanic != "" {
		v.violate("panic", facts, "ServeHTTP panicked: %s at %s", st.ServePanic, st.ServePanicStack)
		return v
	}
	n := refNegotiate(svc, rc.Client.Form, rc.Client.Codec, rc.Client.Compression)
	_ = dir
	// --- representations of both messages on their way through the transcoder
	var names []string
	repsOf := func(which string, data []byte, compressed bool, pad int, fromCodec, comp string, reencoded bool, toCodec string) int64 {
		var m int64
		add := func(name string, n int) {
			if n >= 0 {
				names = append(names, fmt.Sprintf("%s.%s=%d", which, name, n))
				if int64(n) > m {
					m = int64(n)
				}
			}
		}
		add("encoded", sizeUnderRef(fromCodec, data))
		if compressed && comp != "" {
			add("wire", len(refCompressPadded(comp, refEncode(fromCodec, data), pad)))
		}
		if reencoded {
			add("reencoded", sizeUnder(toCodec, data))
			if compressed && comp != "" {
				// the re-encoded form is compressed again for the other side: one more representation in memory. Its exact size
				// depends on field order; a little slack upwards only makes the oracle accept a rejection near the boundary.
				if m2 := newMessageFor(getSchema("sim").method("Unary").Input()); proto.Unmarshal(data, m2) == nil {
					if b, err := refMarshal(toCodec, m2); err == nil {
						add("recompressed", len(refCompress(comp, b))+24)
					}
				}
			}
		}
		return m
	}
	b := st.backend()
	reqData := rc.Client.Msgs[0].Data
	reqCompressed := rc.Client.Compression != "" && (rc.Client.Msgs[0].Compressed || !enveloped(rc.Client.Form))
	reqMax := repsOf("req", reqData, reqCompressed, rc.Client.Msgs[0].Pad, rc.Client.Codec, rc.Client.Compression, full["path"] == "reencode" || full["path"] == "prep", n.Codec)
	var respMax int64
	respData := rc.Backend.Resp.Msgs[0].Data
	if b != nil && rc.Backend.Resp.EndCompressed && st.respComp != "" {
		// a compressed end-of-stream frame: what counts is what it inflates to (at least its trailing metadata)
		n := 0
		for _, kv := range rc.Backend.Resp.Trailers {
			n += len(kv[0]) + len(kv[1]) + 4
		}
		names = append(names, fmt.Sprintf("resp.end-frame-inflated>=%d", n))
		if int64(n) > respMax {
			respMax = int64(n)
		}
	}
	if b != nil && st.respEndLen > 0 {
		// the backend's own end-of-stream / trailer frame is buffered too
		names = append(names, fmt.Sprintf("resp.end-frame=%d", st.respEndLen))
		if int64(st.respEndLen) > respMax {
			respMax = int64(st.respEndLen)
		}
	}
	if b != nil {
		if m := repsOf("resp", respData, rc.Backend.Resp.Msgs[0].Compressed && st.respComp != "", rc.Backend.Resp.Msgs[0].Pad, b.Codec, st.respComp, full["rpath"] == "reencode" || full["rpath"] == "prep", rc.Client.Codec); m > respMax {
			respMax = m
		}
	}
	o := st.Outcome
	exhausted := o.Kind == "error" && o.Err != nil && o.Err.Code == 8
	md := getSchema("sim").method("Unary")
	reqDelivered := b != nil && len(b.Msgs) == 1 && msgEqualBytes(md.Input(), b.Msgs[0], reqData)
	respDelivered := len(o.Msgs) == 1 && o.Msgs[0] != nil && msgEqualBytes(md.Output(), o.Msgs[0], respData)
	if b != nil && len(b.Undecodable) > 0 {
		return v // the backend rejected what it received: C01/C02 territory (raw frame declared compressed)
	}
	switch {
	case reqMax <= L && (b == nil || respMax <= L):
		v.probe("fits")
		if exhausted && rc.Client.Form == FormConnectStream && clientEndFrameMayExceed(&rc.Backend.Resp, L) {
			// the end-of-stream message the Connect client is owed (trailing metadata, error) is itself a message of the
			// stream and may be over a small limit: rejecting that is within the statement
			v.probe("client-end-frame-over-limit")
		} else if exhausted {
			v.violate("rejected-although-fits", facts, "every representation fits in L=%d (%v) but the RPC failed with resource_exhausted: %q", L, names, o.Err.Msg)
		} else if !o.sawSuccess() || !reqDelivered || !respDelivered {
			v.Incidental = append(v.Incidental, "in-limit message not delivered")
		}
	default:
		v.probe("exceeds")
		switch {
		case exhausted:
			v.probe("exceeds-rejected")
			if reqMax > L && reqDelivered {
				v.probe("oversize-request-delivered-then-rpc-failed") // cannot be attributed to one direction: counted, not judged
			}
		case o.sawSuccess() && reqDelivered && respDelivered:
			v.probe("exceeds-streamed")
		case o.Kind == "error" && o.Err != nil && strings.HasPrefix(rc.Backend.Resp.DeclareCL, "="):
			v.probe("exceeds-and-lied-about-length") // two faults at once: any error will do, the accounting below is what counts
		case o.Kind == "error" && o.Err != nil:
			v.probe("exceeds-other-error")
			f := copyFacts(facts)
			f["code"] = codeName(o.Err.Code)
			v.violate("wrong-code-for-oversize", f, "a representation exceeds L=%d (%v); the RPC failed with %s %q instead of resource_exhausted", L, names, codeName(o.Err.Code), o.Err.Msg)
		case rc.Client.Form == FormConnectStream && o.Kind == "invalid" && len(o.Problems) > 0 && strings.HasPrefix(o.Problems[0], "no end-of-stream frame"):
			f := map[string]string{"form": rc.Client.Form}
			v.violate("end-of-stream-frame-dropped", f, "a representation exceeds L=%d (%v) and the error could not be told: the stream ends without an end-of-stream frame", L, names)
		default:
			f := copyFacts(facts)
			f["kind"] = "no-valid-outcome"
			v.violate("oversize-without-outcome", f, "a representation exceeds L=%d (%v); the client got neither the message nor an error: %s", L, names, outcomeBrief(o))
		}
	}
	// --- M-cap: deterministic accounting at the seams
	bound := c10Bound(uint32(L))
	if int64(r.Env.pool.MaxGrowth) > bound {
		f := copyFacts(facts)
		f["form"] = rc.Client.Form
		v.violate("buffer-growth", f, "a pooled buffer grew by %d bytes during an RPC of a service with limit %d (bound %d); representations: %v", r.Env.pool.MaxGrowth, L, bound, names)
	}
	if r.Env.decompMax > bound {
		f := copyFacts(facts)
		v.violate("unbounded-decompression", f, "one decompression produced %d bytes under limit %d (bound %d); wire size of the frame was far smaller: %v", r.Env.decompMax, L, bound, names)
	}
	if r.Env.decompMax > 0 {
		v.probe("decompressed")
	}
	return v
}

// clientEndFrameMayExceed: a generous estimate (twice the reference encoding plus slack) of the Connect end-of-stream
// message for this response against the limit; near the boundary the oracle abstains rather than mirror the encoder.
func clientEndFrameMayExceed(rp *RespPlan, L int64) bool {
	n := len(`{"metadata":{}}`)
	for _, kv := range rp.Trailers {
		n += len(kv[0]) + len(kv[1]) + 8
	}
	if rp.Err != nil {
		n += len(connectErrToJSON(rp.Err)) + 12
	}
	return int64(2*n+64) > L
}

func clientKind(form string) string {
	if enveloped(form) {
		return "enveloped-client"
	}
	return "unenveloped-client"
}

func refEncode(codec string, data []byte) []byte {
	m := newMessageFor(getSchema("sim").method("Unary").Input())
	if proto.Unmarshal(data, m) != nil {
		return nil
	}
	b, _ := refMarshal(codec, m)
	return b
}

func sizeUnderRef(codec string, data []byte) int {
	b := refEncode(codec, data)
	if b == nil {
		return -1
	}
	return len(b)
}

func init() {
	register(&Check{
		ID:    "C10",
		Level: "exploration",
		Rule: "seeded single-RPC scenarios with a per-service limit L drawn from 16 B .. 1 MiB and one large message (request or response direction) whose size is placed at L/2, L-16, L-1, L, L+1, L+16, 2L, 10L, 100L " +
			"(a quarter of the response cases under a Content-Length that understates the body; a fifth with a compressed form padded to just over L or beyond the bound that inflates to a small message) with zero / text / random fill (compression ratios from 1:1 to about 1000:1 through real gzip and zlib), over every client form x target x codec pair x compression pair (re-frame, re-encode, buffer-to-measure, unary buffering). " +
			"oracle: sizes of every representation on the path are computed in-process; all fit => the RPC must not fail with resource_exhausted; some exceed => it fails with resource_exhausted (and the message is not handed over) or was streamed through intact; " +
			"always: no pooled buffer grows by more than 8L+64KiB during the RPC and no single decompression emits more than that (buffer-pool hook and decompressor wrapper: deterministic accounting, not RSS). " +
			"distinct = (direction, form>target, request path, response path, L, schedule hash); non-trivial = transcoder in the data path and a response produced",
		Gen: func(c *Chooser, tier string) *Plan {
			dir := Pick(c, "request", "response")
			p := genScenario(c, ScenOpts{MaxMsgs: 1, MaxBytes: 16, NoErr: true, Methods: []string{"Unary", "UnaryNSE", "ServerStream", "ClientStream", "Bidi"}})
			if p == nil {
				return nil
			}
			svc := &p.Config.Services[0]
			limits := []uint32{16, 64, 100, 1000, 4096, 65536}
			if tier == "thorough" {
				limits = append(limits, 1<<20)
			}
			svc.MaxMsg = limits[c.Intn(len(limits))]
			L := int(svc.MaxMsg)
			n := Pick(c, L/2, L-16, L-1, L, L+1, L+16, 2*L, 10*L, 100*L)
			if n < 0 {
				n = 0
			}
			if n > 8<<20 {
				n = 8 << 20
			}
			fill := Pick(c, "zero", "zero", "text", "random")
			msg := MsgSpec{Data: bigMsg(n, fill, c), Compressed: c.Prob(0.7)}
			small := MsgSpec{Data: []byte{}, Compressed: false}
			rc := &p.RPCs[0]
			if dir == "request" {
				rc.Client.Msgs = []MsgSpec{msg}
				rc.Backend.Resp.Msgs = []MsgSpec{small}
			} else {
				rc.Client.Msgs = []MsgSpec{small}
				rc.Backend.Resp.Msgs = []MsgSpec{msg}
			}
			if dir == "request" && rc.Client.Compression == "" && L >= 64 && c.Bool() {
				// the exact boundary in the client's own encoding: a body of L-1, L, L+1 or L+2 bytes on the wire (the size of
				// the bytes field is adjusted until the encoded message has that length)
				target := L + Pick(c, -1, 0, 1, 2)
				for n := target - 12; n <= target; n++ {
					if n < 0 {
						continue
					}
					if d := bigMsg(n, fill, c); sizeUnderRef(rc.Client.Codec, d) == target {
						rc.Client.Msgs = []MsgSpec{{Data: d, Compressed: false}}
						break
					}
				}
			}
			if c.Prob(0.2) {
				// the compressed form larger than the message: a small message whose compressed frame is padded with empty stored
				// blocks to just over L, or to beyond the bound on buffering
				small2 := MsgSpec{Data: bigMsg(Pick(c, 0, L/4), fill, c), Compressed: true}
				small2.Pad = Pick(c, L/5+1, L/5+8, (8*L+c10Slack)/5+64, 2*(8*L+c10Slack)/5)
				if dir == "request" {
					if rc.Client.Compression == "" {
						rc.Client.Compression = Pick(c, "gzip", "deflate")
					}
					rc.Client.Msgs = []MsgSpec{small2}
				} else {
					if rc.Backend.Resp.Compression == "" {
						rc.Backend.Resp.Compression = Pick(c, "gzip", "deflate")
					}
					rc.Backend.Resp.Msgs = []MsgSpec{small2}
				}
			}
			if c.Prob(0.1) && enveloped(rc.Client.Form) {
				// the end of the stream as the oversized message: a compressed end-of-stream / trailer frame, small on the wire,
				// whose trailing metadata inflates to far more than L (backends whose outcome travels in the body)
				svc.Protocols = []string{Pick(c, ProtoConnect, ProtoGRPCWeb)}
				if md := getSchema("sim").method(rc.Client.Method); md == nil || (!md.IsStreamingClient() && !md.IsStreamingServer()) {
					svc.Protocols = []string{ProtoGRPCWeb} // a unary Connect backend has no end-of-stream frame: its trailers are headers
				}
				rc.Client.Msgs = []MsgSpec{small}
				rc.Backend.Resp.Msgs = []MsgSpec{small}
				rc.Backend.Resp.Compression = Pick(c, "gzip", "deflate")
				rc.Backend.Resp.EndCompressed = true
				rc.Backend.Resp.Trailers = [][2]string{{"X-Filler", strings.Repeat("x", Pick(c, 2*L, 2*(8*L+c10Slack)))}}
				rc.Backend.Resp.TrailerStyle = "prefix"
				rc.Backend.Resp.StrayHTTPTrailer, rc.Backend.Resp.EarlyTrailers = false, false
				if !contains(rc.Client.Accept, rc.Backend.Resp.Compression) {
					rc.Client.Accept = append(rc.Client.Accept, rc.Backend.Resp.Compression)
				}
				dir = "response"
			}
			if rc.Client.Form == FormConnectGet {
				svc.MaxGetURL = 1 << 30
			}
			rc.Client.DeclareCL = Pick(c, "", "none", "exact")
			rc.Client.EOFWithData = c.Bool() // whether the end of the body is told with its last bytes or by a read of its own
			rc.Backend.Resp.DeclareCL = Pick(c, "", "", "exact")
			if dir == "response" && c.Prob(0.25) {
				// a handler that declares less than it writes: the declaration must not stand in for the limit
				rc.Backend.Resp.DeclareCL = fmt.Sprintf("=%d", Pick(c, 1, 8, maxInt(L/2, 1), L)) // (checked against the rendered body in the oracle)
			}
			p.Note = dir
			p.Pool = PoolPlan{Policy: "lifo"}
			return p
		},
		Oracle:      c10Oracle,
		Components:  stdComponents,
		Assumptions: []string{"the bound 8L+64KiB was fixed in DESIGN.md before any code was run against it", "process memory is not measured; buffer growth and decompressor output are"},
	})
}
