package verifsim

// Small constructors for directed (hand-placed) plans: every check starts with a fixed prelude
// that forces its probes at least once, so reach does not depend on the luck of one seed.

func basePlan(svc ServicePlan, cp ClientPlan, bp BackendPlan) *Plan {
	return &Plan{Config: ConfigPlan{Services: []ServicePlan{svc}}, RPCs: []RPCPlan{{Client: cp, Backend: bp}}, Sched: SchedPlan{Policy: "seq"}, Pool: PoolPlan{Policy: "lifo", Poison: true}}
}

func simSvc(protocols, codecs, comps []string) ServicePlan {
	sp := ServicePlan{Schema: "sim", Protocols: protocols, Codecs: codecs, Compression: comps}
	if comps != nil && len(comps) == 0 {
		sp.Compression, sp.NoCompression = nil, true
	}
	return sp
}

func simClient(form, method, codec, comp string, msgs ...MsgSpec) ClientPlan {
	h := 2
	return ClientPlan{Form: form, HTTP: h, Service: "sim", Method: method, Codec: codec, Compression: comp, Accept: []string{"gzip", "deflate"}, Msgs: msgs}
}

func smallMsg() MsgSpec {
	// AllTypes{string_value:"hi", int32_value:7}
	return MsgSpec{Data: []byte{0x18, 0x07, 0x72, 0x02, 'h', 'i'}, Compressed: true}
}

func okResp(n int) RespPlan {
	rp := RespPlan{TrailerStyle: "prefix"}
	for i := 0; i < n; i++ {
		rp.Msgs = append(rp.Msgs, smallMsg())
	}
	return rp
}
