package verifsim

import (
	"bytes"
	"encoding/json"
	"fmt"
	"strings"
)

// C19: GET is accepted and issued only for side-effect-free methods.

func c19Oracle(p *Plan) *Verdict {
	v := &Verdict{}
	rc := &p.RPCs[0]
	svc := &p.Config.Services[0]
	full := scenarioFacts(p, 0)
	nse := rc.Client.Method == "UnaryNSE"
	clientGET := rc.Client.Form == FormConnectGet
	facts := map[string]string{"form": rc.Client.Form, "method": rc.Client.Method, "target": full["target"], "plain_codecs": fmt.Sprint(p.Config.PlainCodecs)}
	v.Class = fmt.Sprintf("%s/%s>%s/%s/plain=%v/comp=%s", rc.Client.Form, rc.Client.Method, full["target"], full["path"], p.Config.PlainCodecs, rc.Client.Compression)
	r := Run(p)
	v.absorb(r)
	if r.World != nil {
		v.Trace = r.World.Log
	}
	if r.BuildErr != "" {
		return v
	}
	st := r.RPCs[0]
	if st.Rejected != "" || st.Outcome == nil {
		return v
	}
	v.Nontrivial = true
	if st.ServePanic != "" {
		v.violate("panic", facts, "ServeHTTP panicked: %s at %s", st.ServePanic, st.ServePanicStack)
		return v
	}
	_, md := planMethod(p, 0)
	// ---- inbound half
	if clientGET && !nse {
		v.probe("get-for-method-with-side-effects")
		if len(st.Backend) > 0 {
			v.violate("get-dispatched-for-side-effects", facts, "a Connect GET for %s (not declared NO_SIDE_EFFECTS) reached the backend as %s %s", rc.Client.Method, st.Backend[0].Method, st.Backend[0].Path)
		}
		if st.Outcome.HTTPStatus != 405 {
			v.violate("get-not-405", facts, "a Connect GET for %s was answered with HTTP %d, not 405", rc.Client.Method, st.Outcome.HTTPStatus)
		} else if len(st.Outcome.Allow) == 0 || !contains(st.Outcome.Allow, "POST") {
			v.violate("allow-header", facts, "405 without an Allow header naming POST (Allow: %v)", st.Outcome.Allow)
		}
		return v
	}
	if len(st.Backend) != 1 {
		v.Incidental = append(v.Incidental, "not dispatched: "+outcomeBrief(st.Outcome))
		return v
	}
	b := st.Backend[0]
	want := rc.Client.Msgs[0].Data
	if len(b.Msgs) != 1 || !msgEqualBytes(md.Input(), b.Msgs[0], want) {
		v.violate("message-differs", facts, "the backend decoded %d messages from %s %s?%s; not the message the client sent (problems %v)", len(b.Msgs), b.Method, b.Path, truncate(b.RawQuery, 200), b.Problems)
		return v
	}
	if clientGET {
		// metamorphic: the same content by POST gives the backend the same message
		post := p.clone()
		post.RPCs[0].Client.Form = FormConnectUnary
		post.RPCs[0].Client.GetBase64 = nil
		pr := Run(post)
		v.absorb(pr)
		if pr.BuildErr == "" && len(pr.RPCs[0].Backend) == 1 {
			pb := pr.RPCs[0].Backend[0]
			if !eqBytesSeq(pb.Msgs, b.Msgs) {
				v.violate("get-post-differ", facts, "GET and POST carrying the same content gave the backend different messages")
			}
		}
		v.probe("get-accepted")
	}
	// ---- outbound half: only meaningful when the transcoder builds the request for a Connect backend
	if b.Protocol != ProtoConnect || b.Stream || full["path"] == "passthrough" {
		return v
	}
	stable := !p.Config.PlainCodecs && b.Codec != "alt" // the third codec never implements StableCodec
	pre := clientGET && nse && stable
	if b.Method == "GET" {
		v.probe("get-issued")
		if !pre {
			v.violate("get-issued-without-precondition", facts, "the backend received a GET although clientGET=%v sideEffectFree=%v stableCodec=%v", clientGET, nse, stable)
			return v
		}
		if len(b.Body) != 0 {
			v.violate("get-with-body", facts, "the GET issued to the backend carries a %d byte body", len(b.Body))
		}
		urlLen := len(b.Path) + 1 + len(b.RawQuery)
		if max := svc.MaxGetURL; max != 0 && urlLen > int(max) {
			v.violate("get-url-too-long", facts, "issued GET URL has %d bytes, the configured maximum is %d", urlLen, max)
		}
		// exact boundary: with the limit at the URL length and around it
		for _, delta := range []int{-2, -1, 0, 1, 2} {
			q := p.clone()
			q.Config.Services[0].MaxGetURL = uint32(urlLen + delta)
			qr := Run(q)
			v.absorb(qr)
			if qr.BuildErr != "" || len(qr.RPCs[0].Backend) != 1 {
				continue
			}
			qb := qr.RPCs[0].Backend[0]
			f := copyFacts(facts)
			f["delta"] = fmt.Sprint(delta)
			switch {
			case delta >= 0 && qb.Method != "GET":
				v.violate("get-boundary", f, "URL of %d bytes fits the limit %d, but the backend received %s", urlLen, urlLen+delta, qb.Method)
			case delta < 0 && qb.Method == "GET":
				v.violate("get-boundary", f, "URL of %d bytes exceeds the limit %d, but the backend still received a GET", urlLen, urlLen+delta)
			case delta < 0 && (len(qb.Msgs) != 1 || !msgEqualBytes(md.Input(), qb.Msgs[0], want)):
				v.violate("post-fallback-message", f, "after falling back to POST the backend did not receive the message")
			}
			v.probe("boundary-runs")
		}
		return v
	}
	// POST was issued
	v.probe("post-issued")
	if b.Method != "POST" {
		v.violate("unexpected-method", facts, "the Connect backend received HTTP method %s", b.Method)
		return v
	}
	if pre {
		// all preconditions but the length hold: the GET URL must really have been too long. Recompute its length from the
		// message (stable form = compact JSON / deterministic proto), independently of what was sent.
		stableBytes := refEncode(b.Codec, want)
		if b.Codec == "json" {
			var buf bytes.Buffer
			// the transcoder's JSON codec emits unpopulated fields; the POST body it sent is the same document with other whitespace
			if err := json.Compact(&buf, decompressIf(b)); err == nil {
				stableBytes = buf.Bytes()
			}
		}
		urlLen := refGetURLLen(b.Path, b.Codec, b.Compression, stableBytes)
		max := int(svc.MaxGetURL)
		if max == 0 {
			max = 8 * 1024
		}
		if urlLen <= max {
			f := copyFacts(facts)
			v.violate("post-although-get-fits", f, "client GET, side-effect-free method, stable codec, and the GET URL would have %d bytes (limit %d), yet POST was issued", urlLen, max)
		}
	}
	return v
}

func decompressIf(b *BackendObs) []byte {
	if b.Compression != "" {
		if out, err := refDecompress(b.Compression, b.Body); err == nil {
			return out
		}
	}
	return b.Body
}

// refGetURLLen computes the length of the Connect GET URL for a message, from the Connect protocol specification.
func refGetURLLen(path, codec, comp string, stable []byte) int {
	data := stable
	binary := codec != "json"
	parts := []string{"connect=v1", "encoding=" + queryEscape(codec)}
	if comp != "" {
		data = refCompress(comp, data)
		parts = append(parts, "compression="+queryEscape(comp))
	}
	if binary || comp != "" {
		parts = append(parts, "base64=1")
		n := (len(data)*8 + 5) / 6 // unpadded base64
		parts = append(parts, "message="+strings.Repeat("A", n))
	} else {
		parts = append(parts, "message="+goQueryEscape(string(data)))
	}
	return len(path) + 1 + len(strings.Join(parts, "&"))
}

// goQueryEscape escapes like application/x-www-form-urlencoded (space as '+').
func goQueryEscape(s string) string {
	var sb strings.Builder
	for i := 0; i < len(s); i++ {
		c := s[i]
		switch {
		case (c >= 'a' && c <= 'z') || (c >= 'A' && c <= 'Z') || (c >= '0' && c <= '9') || c == '-' || c == '_' || c == '.' || c == '~':
			sb.WriteByte(c)
		case c == ' ':
			sb.WriteByte('+')
		default:
			fmt.Fprintf(&sb, "%%%02X", c)
		}
	}
	return sb.String()
}

func init() {
	register(&Check{
		ID:    "C19",
		Level: "exploration",
		Rule: "seeded unary scenarios on methods of each idempotency level (NO_SIDE_EFFECTS, IDEMPOTENT, unknown) x client forms (Connect GET with base64 and plain encodings, padded and unpadded; Connect POST; gRPC; gRPC-Web) x target protocol sets x " +
			"stable and non-stable codecs (a wrapper that hides StableCodec) x compression on/off. inbound: GET for a method with side effects => 405 + Allow naming POST + no dispatch; GET and POST with the same content give the backend the same message. " +
			"outbound to a Connect backend: GET only if client GET and side-effect-free and stable codec and URL fits; every issued GET is re-run with the URL limit at its exact length and +-1, +-2 (GET iff it fits; POST fallback still delivers the message); " +
			"a POST issued although all other preconditions hold must be explained by a reference computation of the URL length. No schedule or fault dependence: closed world plus reference model. " +
			"distinct = (form, method, target, adapter path, codec stability, compression, schedule hash); non-trivial = the request reached ServeHTTP",
		Gen: func(c *Chooser, tier string) *Plan {
			method := Pick(c, "UnaryNSE", "UnaryNSE", "UnaryNSE", "Unary", "UnaryIdem")
			form := Pick(c, FormConnectGet, FormConnectGet, FormConnectGet, FormConnectUnary, FormGRPC, FormGRPCWeb)
			p := genScenario(c, ScenOpts{Forms: []string{FormConnectUnary}, Methods: []string{"Unary"}, MaxMsgs: 1, MaxBytes: Pick(c, 16, 200, 3000), NoErr: true})
			if p == nil {
				return nil
			}
			rc := &p.RPCs[0].Client
			rc.Form, rc.Method = form, method
			if form == FormGRPC {
				rc.HTTP = 2
			}
			if form == FormConnectGet && c.Bool() {
				b := c.Bool()
				rc.GetBase64 = &b
			}
			if form == FormConnectGet && c.Prob(0.35) {
				// the protocol version named in a header as well (what makes a request a Connect GET must not matter later on)
				rc.ExtraHdrs = append(rc.ExtraHdrs, [2]string{"Connect-Protocol-Version", "1"})
			}
			svc := &p.Config.Services[0]
			if c.Prob(0.6) {
				svc.Protocols = []string{ProtoConnect}
			}
			svc.MaxGetURL = Pick(c, uint32(0), 0, 64, 200, 1000, 100000)
			p.Config.PlainCodecs = c.Prob(0.25)
			rp := &p.RPCs[0].Backend.Resp
			rp.Err = nil
			return p
		},
		Oracle:      c19Oracle,
		Components:  stdComponents,
		Assumptions: []string{"REST GET clients are exercised in C07; here the client forms are the RPC ones", "the URL length of an issued GET is measured on the request the backend received; for a POST that should have been a GET it is recomputed from the Connect GET specification"},
	})
}
