package verifsim

import (
	"bufio"
	"bytes"
	"context"
	"encoding/json"
	"fmt"
	"google.golang.org/protobuf/types/dynamicpb"
	"io"
	"net/http"
	"runtime/debug"
	"strconv"
	"strings"
	"time"

	"connectrpc.com/connect"
	"connectrpc.com/vanguard"
	"google.golang.org/genproto/googleapis/api/annotations"
	"google.golang.org/protobuf/proto"
	"google.golang.org/protobuf/reflect/protoreflect"
	"google.golang.org/protobuf/reflect/protoregistry"
)

func cloneJSON[T any](v *T) *T {
	b, err := json.Marshal(v)
	if err != nil {
		panic(err)
	}
	out := new(T)
	if err := json.Unmarshal(b, out); err != nil {
		panic(err)
	}
	return out
}

type rpcKey struct{}

type rpcState struct {
	idx    int
	name   string
	world  *World
	plan   *RPCPlan
	schema *Schema
	svc    *ServicePlan
	md     protoreflect.MethodDescriptor

	rendered *RenderedReq
	req      *http.Request
	body     *SimBody
	rw       *simRW
	ctx      context.Context
	cancel   context.CancelFunc

	served               bool
	ServeSeq             uint64
	ServePanic           string
	ServePanicStack      string
	Backend              []*BackendObs
	Panics               []string
	Outcome              *Outcome
	Rejected             string // request could not be built (e.g. http.ReadRequest refused it)
	CtxCancelledAtReturn []bool
	ClientRounds         int
	ClientStuck          string
	RespFrameSeq         []uint64 // seq at which response frame k became visible (ping-pong)
	ReqSentSeq           []uint64 // seq at which request frame k was delivered
	BodySent             int
	BodyTotal            int
	CutAt                int // offset at which the request body was cut (-1 none)
	CutKind              string
	orig                 origRequest
	cfg                  *ConfigPlan
	respEndLen           int      // payload length of the backend's end-of-stream / trailer frame (0: none)
	respLen              int      // length of the body the backend rendered (for fault enumeration)
	respBounds           []int    // end offset of every frame the backend rendered (data frames, then the end frame if it is in the body)
	respPrefixes         []int    // start offset of those frames
	respComp             string   // compression the backend used
	respPayloads         [][]byte // wire payloads of the backend's data frames
}

// origRequest is a snapshot of the request as the client sent it (the transcoder mutates the live one).
type origRequest struct {
	Method, Path, RawPath, RawQuery, Proto, Host, RequestURI string
	ProtoMajor                                               int
	Header                                                   http.Header
	ContentLength                                            int64
	TransferEncoding                                         []string
}

type RunResult struct {
	Plan      *Plan
	RPCs      []*rpcState
	World     *World
	Env       *env
	BuildErr  string
	Deadlock  bool
	StepCap   bool
	TaskFails []string
}

// buildTranscoder constructs the real vanguard.Transcoder for cfg. backends are indexed by service.
func buildTranscoder(cfg *ConfigPlan, mk func(svc *ServicePlan, sch *Schema, unknown bool) http.Handler) (*vanguard.Transcoder, error) {
	var services []*vanguard.Service
	var defaults []vanguard.ServiceOption
	for i := range cfg.Services {
		sp := &cfg.Services[i]
		sch := getSchema(sp.Schema)
		if sch == nil {
			return nil, fmt.Errorf("unknown schema %q", sp.Schema)
		}
		opts := serviceOpts(sp)
		h := mk(sp, sch, false)
		if cfg.DefaultsOnly && i == 0 {
			defaults = opts
			opts = nil
		}
		svc, extra, err := makeService(sp, sch, h, opts)
		if err != nil {
			return nil, err
		}
		_ = extra
		services = append(services, svc)
	}
	var topts []vanguard.TranscoderOption
	wrapJSON := func(res vanguard.TypeResolver) vanguard.Codec {
		if cfg.PlainCodecs {
			return codecPlain{vanguard.NewJSONCodec(res)}
		}
		return codecFull{vanguard.NewJSONCodec(res)}
	}
	wrapProto := func(res vanguard.TypeResolver) vanguard.Codec {
		if cfg.PlainCodecs {
			return codecPlain{vanguard.NewProtoCodec(res)}
		}
		return codecStable{vanguard.NewProtoCodec(res)}
	}
	topts = append(topts,
		vanguard.WithCodec(wrapJSON),
		vanguard.WithCodec(wrapProto),
		vanguard.WithCodec(func(res vanguard.TypeResolver) vanguard.Codec { return altCodec{vanguard.NewProtoCodec(res)} }),
		vanguard.WithCompression("gzip", func() connect.Compressor { return newSimCompressor("gzip") }, func() connect.Decompressor { return newSimDecompressor("gzip") }),
		vanguard.WithCompression("deflate", func() connect.Compressor { return newSimCompressor("deflate") }, func() connect.Decompressor { return newSimDecompressor("deflate") }),
	)
	if cfg.Defaults != nil {
		defaults = append(serviceOpts(cfg.Defaults), defaults...)
	}
	if len(defaults) > 0 {
		topts = append(topts, vanguard.WithDefaultServiceOptions(defaults...))
	}
	if len(cfg.Rules) > 0 {
		var rules []*annotations.HttpRule
		for i := range cfg.Rules {
			rules = append(rules, cfg.Rules[i].toProto())
		}
		topts = append(topts, vanguard.WithRules(rules...))
	}
	if cfg.UnknownHandler {
		topts = append(topts, vanguard.WithUnknownHandler(mk(nil, nil, true)))
	}
	return vanguard.NewTranscoder(services, topts...)
}

func (r *RulePlan) toProto() *annotations.HttpRule {
	hr := &annotations.HttpRule{Selector: r.Selector, Body: r.Body, ResponseBody: r.RespBody}
	switch {
	case r.NoPattern:
	case r.Custom:
		hr.Pattern = &annotations.HttpRule_Custom{Custom: &annotations.CustomHttpPattern{Kind: r.Method, Path: r.Template}}
	case r.Method == "GET":
		hr.Pattern = &annotations.HttpRule_Get{Get: r.Template}
	case r.Method == "POST":
		hr.Pattern = &annotations.HttpRule_Post{Post: r.Template}
	case r.Method == "PUT":
		hr.Pattern = &annotations.HttpRule_Put{Put: r.Template}
	case r.Method == "DELETE":
		hr.Pattern = &annotations.HttpRule_Delete{Delete: r.Template}
	case r.Method == "PATCH":
		hr.Pattern = &annotations.HttpRule_Patch{Patch: r.Template}
	}
	for i := range r.Additional {
		hr.AdditionalBindings = append(hr.AdditionalBindings, r.Additional[i].toProto())
	}
	return hr
}

func toVanguardProtocol(p string) vanguard.Protocol {
	switch p {
	case ProtoConnect:
		return vanguard.ProtocolConnect
	case ProtoGRPC:
		return vanguard.ProtocolGRPC
	case ProtoGRPCWeb:
		return vanguard.ProtocolGRPCWeb
	case ProtoREST:
		return vanguard.ProtocolREST
	}
	return vanguard.Protocol(99)
}

func serviceOpts(sp *ServicePlan) []vanguard.ServiceOption {
	var opts []vanguard.ServiceOption
	if sp.EmptyProtocols {
		opts = append(opts, vanguard.WithTargetProtocols())
	} else if sp.Protocols != nil {
		var ps []vanguard.Protocol
		for _, p := range sp.Protocols {
			ps = append(ps, toVanguardProtocol(p))
		}
		opts = append(opts, vanguard.WithTargetProtocols(ps...))
	}
	if sp.EmptyCodecs {
		opts = append(opts, vanguard.WithTargetCodecs())
	} else if sp.Codecs != nil {
		opts = append(opts, vanguard.WithTargetCodecs(sp.Codecs...))
	}
	if sp.NoCompression {
		opts = append(opts, vanguard.WithNoTargetCompression())
	} else if sp.Compression != nil {
		opts = append(opts, vanguard.WithTargetCompression(sp.Compression...))
	}
	if sp.MaxMsg != 0 {
		opts = append(opts, vanguard.WithMaxMessageBufferBytes(sp.MaxMsg))
	}
	if sp.MaxGetURL != 0 {
		opts = append(opts, vanguard.WithMaxGetURLBytes(sp.MaxGetURL))
	}
	if sp.DiscardUnknownQuery {
		opts = append(opts, vanguard.WithRESTUnmarshalOptions(vanguard.RESTUnmarshalOptions{DiscardUnknownQueryParams: true}))
	}
	return opts
}

// makeService registers the schema the way sp.Via says (C20 varies this; default depends on schema).
func makeService(sp *ServicePlan, sch *Schema, h http.Handler, opts []vanguard.ServiceOption) (*vanguard.Service, any, error) {
	via := sp.Via
	if via == "" {
		if sp.Schema == "sim" || sp.Schema == "sim2" || sp.Schema == "bare" {
			via = "schema"
		} else if sp.Schema == "chain" {
			via = "explicit-resolver"
		} else {
			via = "name"
		}
	}
	switch via {
	case "name":
		return vanguard.NewService(string(sch.Service.FullName()), h, opts...), nil, nil
	case "schema":
		// dynamic descriptor, but messages resolved to the generated Go types: re-encoding is then
		// deterministic (dynamicpb marshals fields in Go map order), which keeps event logs replayable
		return vanguard.NewServiceWithSchema(sch.Service, h, append(opts, vanguard.WithTypeResolver(protoregistry.GlobalTypes))...), nil, nil
	case "explicit-resolver":
		// a schema no registry of the process knows, with a resolver built from all of its files
		return vanguard.NewServiceWithSchema(sch.Service, h, append(opts, vanguard.WithTypeResolver(dynamicpb.NewTypes(chainFiles)))...), nil, nil
	case "default-resolver":
		// the same schema, the resolver left to the transcoder (it has the service's file and its import graph)
		return vanguard.NewServiceWithSchema(sch.Service, h, opts...), nil, nil
	default:
		sd, extraOpts, err := alternateSchema(via, sch)
		if err != nil {
			return nil, nil, err
		}
		return vanguard.NewServiceWithSchema(sd, h, append(opts, extraOpts...)...), nil, nil
	}
}

// Run executes a plan. It never panics on SUT misbehaviour; everything is recorded in the result.
func Run(plan *Plan) *RunResult {
	plan.normalize()
	res := &RunResult{Plan: plan}
	stepCap := plan.StepCap
	if stepCap == 0 {
		stepCap = 200000
	}
	w := NewWorld(plan.Sched, stepCap)
	res.World = w
	e := &env{w: nil, pool: newSimPool(plan.Pool), failAt: map[string]int{}, Fired: map[string]int{}, decompCap: 96 << 20}
	for _, f := range plan.LibFaults {
		e.failAt[f.Kind] = f.At
	}
	for i := range plan.RPCs {
		for _, f := range plan.RPCs[i].LibFaults {
			e.failAt["r"+strconv.Itoa(i)+"/"+f.Kind] = f.At
		}
	}
	res.Env = e
	curEnv = e
	defer func() { curEnv = nil }()

	states := make([]*rpcState, len(plan.RPCs))
	lookup := func(r *http.Request) *rpcState {
		st, _ := r.Context().Value(rpcKey{}).(*rpcState)
		if st == nil {
			panic("backend invoked with a request that does not carry its RPC")
		}
		return st
	}
	mk := func(svc *ServicePlan, sch *Schema, unknown bool) http.Handler {
		return &backendHandler{svc: svc, schema: sch, lookup: lookup, unknown: unknown}
	}
	tr, err := buildTranscoder(&plan.Config, mk)
	if err != nil {
		res.BuildErr = err.Error()
		return res
	}
	e.w = w
	var current *rpcState
	e.pool.owner = func() string {
		if w.cur != nil {
			name := w.cur.name
			if i := strings.IndexByte(name, '.'); i > 0 {
				return name[:i]
			}
			return name
		}
		if current != nil {
			return current.name
		}
		return ""
	}
	for i := range plan.RPCs {
		st := &rpcState{idx: i, name: "r" + strconv.Itoa(i), world: w, plan: &plan.RPCs[i], CutAt: -1}
		states[i] = st
		prepareRPC(st, &plan.Config)
	}
	res.RPCs = states
	launch := func(st *rpcState) {
		if st.Rejected != "" {
			return
		}
		w.Spawn(st.name+".client", func() { clientTask(st) })
		w.Spawn(st.name+".server", func() { serverTask(st, tr) })
	}
	if plan.Concurrent {
		for _, st := range states {
			launch(st)
		}
		w.Run()
	} else {
		// sequential history: one driver task launches each RPC after the previous one finished
		w.Spawn("driver", func() {
			for _, st := range states {
				st := st
				if st.Rejected != "" {
					continue
				}
				current = st
				launch(st)
				w.Block("driver.wait", func() bool { return st.served })
			}
		})
		w.Run()
	}
	res.Deadlock = w.Deadlock
	res.StepCap = w.HitStepCap
	res.TaskFails = w.TaskFailures()
	for _, st := range states {
		finishRPC(st)
	}
	return res
}

// prepareRPC renders the client's request and builds the *http.Request the way a Go server would.
func prepareRPC(st *rpcState, cfg *ConfigPlan) {
	st.plan.normalize()
	st.cfg = cfg
	cp := &st.plan.Client
	var svc *ServicePlan
	for i := range cfg.Services {
		if cfg.Services[i].Schema == cp.Service {
			svc = &cfg.Services[i]
		}
	}
	if svc == nil && len(cfg.Services) > 0 {
		svc = &cfg.Services[0]
	}
	st.svc = svc
	if svc != nil {
		st.schema = getSchema(svc.Schema)
	}
	if st.schema != nil && cp.Method != "" {
		st.md = st.schema.method(cp.Method)
	}
	cr := &ClientReq{
		Form: cp.Form, HTTPMajor: cp.HTTP, Codec: cp.Codec, Compression: cp.Compression, AcceptComp: cp.Accept,
		Timeout: cp.Timeout, AppHeaders: cp.Headers, HTTPMethod: cp.HTTPMethod, Path: cp.Path, RawQuery: cp.RawQuery,
		ExtraHdrs: cp.ExtraHdrs, GetBase64: cp.GetBase64, ContentType: cp.ContentType, Spelling: cp.Spelling,
	}
	if cp.HasRawBody {
		cr.RawBody = cp.RawBody
		if cr.RawBody == nil {
			cr.RawBody = []byte{}
		}
	}
	if st.md != nil {
		cr.MethodPath = st.schema.methodPath(cp.Method)
	}
	if cp.Path != "" && cp.Form != FormREST && cp.Form != FormRaw {
		cr.MethodPath = cp.Path
	}
	for _, ms := range cp.Msgs {
		wm := WireMsg{Compressed: ms.Compressed, Pad: ms.Pad}
		switch {
		case ms.RawPayload != nil:
			wm.Data = ms.RawPayload
		case st.md != nil:
			m := newMessageFor(st.md.Input())
			if err := proto.Unmarshal(ms.Data, m); err != nil {
				wm.Data = ms.Data
			} else if b, err := refMarshal(cp.Codec, m); err == nil {
				wm.Data = b
			} else {
				wm.Data = ms.Data
			}
		default:
			wm.Data = ms.Data
		}
		cr.Msgs = append(cr.Msgs, wm)
	}
	if cp.Form == FormREST && cp.RestJSON != nil {
		cr.Msgs = []WireMsg{{Data: cp.RestJSON}}
		if len(cp.Msgs) > 0 {
			cr.Msgs[0].Pad = cp.Msgs[0].Pad
		}
	}
	rr := renderRequest(cr)
	if cp.ShortCT && (cp.Form == FormGRPC || cp.Form == FormGRPCWeb) {
		for i := range rr.Headers {
			if rr.Headers[i][0] == "Content-Type" {
				rr.Headers[i][1] = strings.TrimSuffix(rr.Headers[i][1], "+proto")
			}
		}
	}
	// hostile per-frame overrides
	if len(cp.Msgs) > 0 && len(rr.Bounds) == len(cp.Msgs) {
		start := 0
		for i, ms := range cp.Msgs {
			if ms.Flags != nil {
				rr.Body[start] = byte(*ms.Flags)
			}
			if ms.LenDelta != 0 {
				n := int64(rr.Bounds[i]-start-5) + int64(ms.LenDelta)
				if n < 0 {
					n = 0
				}
				rr.Body[start+1], rr.Body[start+2], rr.Body[start+3], rr.Body[start+4] = byte(n>>24), byte(n>>16), byte(n>>8), byte(n)
			}
			start = rr.Bounds[i]
		}
	}
	st.rendered = rr
	st.BodyTotal = len(rr.Body)

	// wire text of the head
	var sb strings.Builder
	fmt.Fprintf(&sb, "%s %s HTTP/1.1\r\nHost: sim.test\r\n", rr.Method, rr.Target)
	declared := int64(-1)
	decl := cp.DeclareCL
	if decl == "" {
		if cp.Form == FormConnectUnary || cp.Form == FormREST || cp.Form == FormRaw {
			decl = "exact"
		} else {
			decl = "none"
		}
	}
	if !rr.HasBody {
		decl = "nobody"
	}
	switch {
	case decl == "exact":
		declared = int64(len(rr.Body))
	case strings.HasPrefix(decl, "+") || strings.HasPrefix(decl, "-"):
		d, _ := strconv.Atoi(decl)
		declared = int64(len(rr.Body) + d)
		if declared < 0 {
			declared = 0
		}
	case strings.HasPrefix(decl, "="):
		n, _ := strconv.ParseInt(decl[1:], 10, 64)
		declared = n
	}
	if declared >= 0 {
		fmt.Fprintf(&sb, "Content-Length: %d\r\n", declared)
	} else if decl == "none" {
		sb.WriteString("Transfer-Encoding: chunked\r\n")
	}
	for _, kv := range rr.Headers {
		fmt.Fprintf(&sb, "%s: %s\r\n", kv[0], kv[1])
	}
	sb.WriteString("\r\n")
	req, err := http.ReadRequest(bufio.NewReader(strings.NewReader(sb.String())))
	if err != nil {
		st.Rejected = "http.ReadRequest: " + err.Error()
		return
	}
	if cp.HTTP == 2 {
		req.Proto, req.ProtoMajor, req.ProtoMinor = "HTTP/2.0", 2, 0
		req.TransferEncoding = nil
	}
	base := context.WithValue(context.Background(), rpcKey{}, st)
	if cp.CtxDeadlineS > 0 {
		// (real time, far away: it never fires during a run; only its presence and distance can matter to the code under test)
		var stop context.CancelFunc
		base, stop = context.WithTimeout(base, time.Duration(cp.CtxDeadlineS)*time.Second)
		_ = stop
	}
	st.ctx, st.cancel = context.WithCancel(base)
	req = req.WithContext(st.ctx)
	st.body = &SimBody{w: st.world, name: st.name + ".body", eofWithData: cp.EOFWithData, served: &st.served}
	if rr.HasBody || declared > 0 {
		req.Body = st.body
	} else {
		req.Body = http.NoBody
		st.body.ended, st.body.endErr = true, io.EOF
	}
	if len(cp.ReqTrailers) > 0 && req.Body == st.body {
		// as net/http does it: the announced names are there from the start (no values), the values are put into this
		// very map when the body's end has been read
		req.Trailer = http.Header{}
		for _, kv := range cp.ReqTrailers {
			req.Trailer[http.CanonicalHeaderKey(kv[0])] = nil
		}
		tm, tr := req.Trailer, cp.ReqTrailers
		st.body.onEOF = func() {
			for _, kv := range tr {
				tm.Add(kv[0], kv[1])
			}
		}
	}
	req.RemoteAddr = "192.0.2.1:1234"
	st.req = req
	st.orig = origRequest{Method: req.Method, Path: req.URL.Path, RawPath: req.URL.RawPath, RawQuery: req.URL.RawQuery, Proto: req.Proto, ProtoMajor: req.ProtoMajor,
		Header: req.Header.Clone(), ContentLength: req.ContentLength, Host: req.Host, RequestURI: req.RequestURI, TransferEncoding: append([]string(nil), req.TransferEncoding...)}
	st.rw = newSimRW(st.world, st.name+".rw")
	st.rw.served = &st.served
	if cp.WriterFailAfter > 0 {
		st.rw.failAfter = int64(cp.WriterFailAfter)
	}
}

// bodyPieces splits the request body into deliveries, applying cut faults and Content-Length semantics.
func bodyPieces(st *rpcState) (pieces [][]byte, endErr error) {
	cp := &st.plan.Client
	body := st.rendered.Body
	endErr = io.EOF
	for _, f := range cp.Faults {
		if (f.Kind == "cut-eof" || f.Kind == "cut-err") && f.At >= 0 && f.At < len(body) {
			body = body[:f.At]
			st.CutAt, st.CutKind = f.At, f.Kind
			if f.Kind == "cut-err" {
				endErr = errConnReset
			} else if st.req.ContentLength > int64(len(body)) {
				endErr = io.ErrUnexpectedEOF // what net/http reports for a short body
			}
		}
	}
	if cl := st.req.ContentLength; cl >= 0 {
		if int64(len(body)) > cl {
			body = body[:cl] // net/http never hands out more than the declared length
		} else if int64(len(body)) < cl && endErr == io.EOF {
			endErr = io.ErrUnexpectedEOF
		}
	}
	if len(cp.Deliveries) == 0 {
		if len(body) > 0 {
			pieces = append(pieces, body)
		}
		return pieces, endErr
	}
	off, i := 0, 0
	for off < len(body) {
		n := cp.Deliveries[i%len(cp.Deliveries)]
		i++
		if n < 1 {
			n = 1
		}
		if off+n > len(body) {
			n = len(body) - off
		}
		pieces = append(pieces, body[off:off+n])
		off += n
	}
	return pieces, endErr
}

func clientTask(st *rpcState) {
	w := st.world
	cp := &st.plan.Client
	if cp.CancelAtStep > 0 {
		w.After(int64(cp.CancelAtStep), func() {
			w.Logf("fault", "client cancels context")
			st.cancel()
		})
	}
	if cp.PingPong && len(st.rendered.Bounds) > 0 {
		clientPingPong(st)
		return
	}
	pieces, endErr := bodyPieces(st)
	if cp.FirstByteDelayMs > 0 {
		// a slow client (or network): simulated time passes between the request head and the first body byte
		w.SleepMs(int64(cp.FirstByteDelayMs))
		w.Logf("client.delay", "%dms", cp.FirstByteDelayMs)
	}
	for _, p := range pieces {
		st.body.deliver(append([]byte(nil), p...))
		st.BodySent += len(p)
		w.Logf("client.send", "n=%d", len(p))
		w.Yield("client.send")
		if w.Aborting() {
			return
		}
	}
	st.body.end(endErr)
	w.Logf("client.end", "%v", endErr)
	w.Block("client.await", func() bool { return st.rw.finished })
}

// clientPingPong: send frame k+1 only after response frame k has been seen.
func clientPingPong(st *rpcState) {
	w := st.world
	body := st.rendered.Body
	start := 0
	dataFrames := func() int {
		frames, _ := splitFrames(st.rw.Visible)
		n := 0
		for _, f := range frames {
			if isDataFrame(st.plan.Client.Form, f.Flags) {
				n++
			}
		}
		return n
	}
	first := 0
	if st.plan.Backend.ServerFirst {
		// the handler speaks first: nothing is sent before its message has arrived
		first = 1
		if !w.Block("client.await-greeting", func() bool { return dataFrames() >= 1 || st.rw.finished }) {
			st.ClientStuck = "waiting for the handler's first message"
			return
		}
		w.Logf("client.greeted", "")
	}
	for k, end := range st.rendered.Bounds {
		st.body.deliver(append([]byte(nil), body[start:end]...))
		st.ReqSentSeq = append(st.ReqSentSeq, w.Logf("client.ping", "%d", k))
		start = end
		want := k + 1 + first
		ok := w.Block("client.await-pong", func() bool {
			frames, _ := splitFrames(st.rw.Visible)
			n := 0
			for _, f := range frames {
				if isDataFrame(st.plan.Client.Form, f.Flags) {
					n++
				}
			}
			return n >= want || st.rw.finished
		})
		if !ok {
			st.ClientStuck = fmt.Sprintf("waiting for response %d", want)
			return
		}
		frames, _ := splitFrames(st.rw.Visible)
		n := 0
		for _, f := range frames {
			if isDataFrame(st.plan.Client.Form, f.Flags) {
				n++
			}
		}
		if n < want {
			break // server finished early
		}
		st.RespFrameSeq = append(st.RespFrameSeq, w.Logf("client.pong", "%d", k))
		st.ClientRounds = k + 1
	}
	st.body.end(io.EOF)
	w.Logf("client.end", "EOF")
	w.Block("client.await", func() bool { return st.rw.finished })
}

func isDataFrame(form string, flags byte) bool {
	switch form {
	case FormGRPCWeb:
		return flags&0x80 == 0
	case FormConnectStream:
		return flags&0x02 == 0
	}
	return true
}

func serverTask(st *rpcState, tr *vanguard.Transcoder) {
	w := st.world
	defer func() {
		if r := recover(); r != nil {
			if sp, ok := r.(simPanic); ok {
				// a panic the scripted backend raised on purpose propagates like in net/http
				w.Logf("server.backend-panic", "%s", sp.where)
			} else {
				st.ServePanic = fmt.Sprintf("%v", r)
				st.ServePanicStack = panicSite(debug.Stack())
				w.Logf("server.panic", "%v", r)
			}
		}
		st.ServeSeq = w.Logf("server.return", "")
		for _, b := range st.Backend {
			st.CtxCancelledAtReturn = append(st.CtxCancelledAtReturn, b.Ctx != nil && b.Ctx.Err() != nil)
		}
		if st.rw.middleware != nil {
			st.rw.middleware.drain() // the middleware's own deferred flush
		}
		st.served = true
		st.rw.finish()
		st.cancel() // net/http cancels the request context when the handler returns
		// an aborted or closed connection also unblocks a client stuck sending
		st.body.closed = true
	}()
	w.Logf("server.enter", "%s %s", st.req.Method, st.req.URL.RequestURI())
	tr.ServeHTTP(st.rw.asResponseWriter(st.plan.Client.RW), st.req)
}

func finishRPC(st *rpcState) {
	if st.Rejected != "" || st.rw == nil || !st.rw.finished {
		return
	}
	cp := &st.plan.Client
	rv := &RespView{Status: st.rw.Status, Header: st.rw.Snap, Body: st.rw.Visible, Trailers: st.rw.Trailers}
	var newMsg msgFactory = func() proto.Message { return nil }
	httpBody := false
	var respField protoreflect.FieldDescriptor
	md := st.md
	if len(st.Backend) > 0 && st.Backend[0].RPCMethod != "" && st.schema != nil {
		if m := st.schema.methodByFullName(st.Backend[0].RPCMethod); m != nil {
			md = m
		}
	}
	if md == nil && st.schema != nil && cp.Form == FormREST {
		if rt := refRouteFor(st); rt != nil {
			md = rt.method
		}
	}
	if md != nil {
		out := md.Output()
		newMsg = func() proto.Message { return newMessageFor(out) }
	}
	if cp.Form == FormREST && st.schema != nil {
		if rt := refRouteFor(st); rt != nil {
			httpBody = rt.respIsHTTPBody()
			respField = rt.respField()
			if respField != nil && respField.Message() != nil && !respField.IsList() && !respField.IsMap() {
				// a message-typed response_body: the body is the JSON of that sub-message
				sub := respField.Message()
				newMsg = func() proto.Message { return newMessageFor(sub) }
				respField = nil
			}
		}
	}
	st.Outcome = parseResponse(cp.Form, cp.Codec, cp.Accept, rv, newMsg, httpBody, respField)
	st.Outcome.Problems = append(st.Outcome.Problems, st.rw.Problems...)
}

// helpers used by generators and oracles

func (st *rpcState) backend() *BackendObs {
	if len(st.Backend) == 0 {
		return nil
	}
	return st.Backend[0]
}

func eqBytesSeq(a, b [][]byte) bool {
	if len(a) != len(b) {
		return false
	}
	for i := range a {
		if !bytes.Equal(a[i], b[i]) {
			return false
		}
	}
	return true
}

// panicSite extracts the vanguard frames of a panic stack (file:line list), for the reader of a report.
func panicSite(stack []byte) string {
	// frames of the package under test (wherever the repository is checked out), innermost first, as file:line
	var out []string
	lines := strings.Split(string(stack), "\n")
	for k := 0; k+1 < len(lines); k++ {
		fn := strings.TrimSpace(lines[k])
		if !strings.HasPrefix(fn, "connectrpc.com/vanguard.") {
			continue
		}
		loc := strings.TrimSpace(lines[k+1])
		if i := strings.IndexByte(loc, ' '); i > 0 {
			loc = loc[:i]
		}
		if i := strings.LastIndexByte(loc, '/'); i >= 0 {
			loc = loc[i+1:]
		}
		out = append(out, loc)
		if len(out) >= 4 {
			break
		}
	}
	return strings.Join(out, " < ")
}
