package verifsim

// A Plan is the complete, self-contained description of one simulated world: configuration,
// workload, segmentation, faults, pool policy and schedule. Execution is a pure function of it.

type ServicePlan struct {
	Schema              string   `json:"schema"`                // library | content | sim
	Via                 string   `json:"via,omitempty"`         // name | schema | fresh | private | noparent | notfound
	Protocols           []string `json:"protocols,omitempty"`   // nil: transcoder default
	Codecs              []string `json:"codecs,omitempty"`      // nil: default
	Compression         []string `json:"compression,omitempty"` // nil: default; see NoCompression
	NoCompression       bool     `json:"no_compression,omitempty"`
	MaxMsg              uint32   `json:"max_msg,omitempty"`
	MaxGetURL           uint32   `json:"max_get_url,omitempty"`
	DiscardUnknownQuery bool     `json:"discard_unknown_query,omitempty"`
	EmptyProtocols      bool     `json:"empty_protocols,omitempty"` // WithTargetProtocols() with no arguments
	EmptyCodecs         bool     `json:"empty_codecs,omitempty"`    // WithTargetCodecs() with no arguments
}

func (s *ServicePlan) protocols() []string {
	if s.Protocols == nil {
		return []string{ProtoConnect, ProtoGRPC, ProtoGRPCWeb}
	}
	return s.Protocols
}
func (s *ServicePlan) codecs() []string {
	if s.Codecs == nil {
		return []string{"proto", "json"}
	}
	return s.Codecs
}
func (s *ServicePlan) compressions() []string {
	if s.NoCompression {
		return nil
	}
	if s.Compression == nil {
		return []string{"gzip"}
	}
	return s.Compression
}
func (s *ServicePlan) maxMsg() uint32 {
	if s.MaxMsg == 0 {
		return 0xFFFFFFFF
	}
	return s.MaxMsg
}

type RulePlan struct {
	Selector   string     `json:"selector"`
	Method     string     `json:"method"` // GET POST PUT DELETE PATCH or custom kind
	Custom     bool       `json:"custom,omitempty"`
	Template   string     `json:"template"`
	Body       string     `json:"body,omitempty"`
	RespBody   string     `json:"resp_body,omitempty"`
	Additional []RulePlan `json:"additional,omitempty"`
	NoPattern  bool       `json:"no_pattern,omitempty"`
}

type ConfigPlan struct {
	Services       []ServicePlan `json:"services"`
	Rules          []RulePlan    `json:"rules,omitempty"`
	UnknownHandler bool          `json:"unknown_handler,omitempty"`
	DefaultsOnly   bool          `json:"defaults_only,omitempty"` // put service options in WithDefaultServiceOptions instead
	PlainCodecs    bool          `json:"plain_codecs,omitempty"`  // json/proto codecs wrapped so that they do not implement StableCodec
	ExtraCodecs    []string      `json:"extra_codecs,omitempty"`
	Defaults       *ServicePlan  `json:"defaults,omitempty"` // WithDefaultServiceOptions(...) for all services
}

type Fault struct {
	Kind string `json:"kind"` // cut-eof | cut-err | stall | cancel-ctx | writer-fail | codec-fail | comp-fail | decomp-fail
	At   int    `json:"at"`   // byte offset / call index / step
}

type ClientPlan struct {
	Form        string      `json:"form"`
	HTTP        int         `json:"http"` // 1 or 2
	Service     string      `json:"service,omitempty"`
	Method      string      `json:"method,omitempty"` // method name within service, e.g. "GetBook"
	Codec       string      `json:"codec,omitempty"`
	Compression string      `json:"compression,omitempty"`
	Accept      []string    `json:"accept,omitempty"`
	Timeout     string      `json:"timeout,omitempty"`
	Headers     [][2]string `json:"headers,omitempty"`
	Msgs        []MsgSpec   `json:"msgs,omitempty"`
	ShortCT     bool        `json:"short_ct,omitempty"`
	Spelling    int         `json:"spelling,omitempty"` // legal spelling variants: 1 = JSON content type with "; charset=utf-8" (Connect unary POST, REST); 2 = accepted compressions joined by ", "; 4 = one header line per accepted compression
	// REST / raw
	HTTPMethod  string      `json:"http_method,omitempty"`
	Path        string      `json:"path,omitempty"`
	RawQuery    string      `json:"raw_query,omitempty"`
	RawBody     []byte      `json:"raw_body,omitempty"`
	HasRawBody  bool        `json:"has_raw_body,omitempty"`
	RestJSON    []byte      `json:"rest_json,omitempty"` // REST body as JSON text (instead of Msgs)
	ContentType string      `json:"content_type,omitempty"`
	ExtraHdrs   [][2]string `json:"extra_hdrs,omitempty"`
	ReqTrailers [][2]string `json:"req_trailers,omitempty"` // request trailers: announced with the head, their values arrive after the body (net/http fills Request.Trailer when the body reports EOF)
	GetBase64   *bool       `json:"get_base64,omitempty"`
	// transport
	DeclareCL        string  `json:"declare_cl,omitempty"` // "" (exact for unary forms on h1, none for streams) | none | exact | +N | -N | =N
	Deliveries       []int   `json:"deliveries,omitempty"` // cyclic piece sizes; nil: whole body at once
	EOFWithData      bool    `json:"eof_with_data,omitempty"`
	Faults           []Fault `json:"faults,omitempty"`
	PingPong         bool    `json:"ping_pong,omitempty"`
	RW               string  `json:"rw,omitempty"`                  // flusher | flusherr | unwrap | noflush
	WriterFailAfter  int     `json:"writer_fail_after,omitempty"`   // >0: client goes away after this many response bytes
	CancelAtStep     int     `json:"cancel_at_step,omitempty"`      // >0: request context cancelled at this scheduler step
	CtxDeadlineS     int     `json:"ctx_deadline_s,omitempty"`      // >0: the request context already carries a deadline that many (real) seconds away, as under http.TimeoutHandler
	FirstByteDelayMs int     `json:"first_byte_delay_ms,omitempty"` // the request body starts arriving that many simulated milliseconds after the request head
}

type RPCPlan struct {
	Client      ClientPlan  `json:"client"`
	Backend     BackendPlan `json:"backend"`
	Passthrough bool        `json:"passthrough,omitempty"` // backend should treat the request as opaque (C13)
	Relaxed     bool        `json:"relaxed,omitempty"`     // full-duplex RPC with a one-sided fault: its outcome legitimately depends on the schedule
	LibFaults   []Fault     `json:"lib_faults,omitempty"`  // the At-th call of Kind (marshal, unmarshal, comp.write, comp.close, decomp.reset, decomp.read, decomp.close) made on behalf of this RPC fails
}

type PoolPlan struct {
	Policy     string `json:"policy,omitempty"` // lifo | fifo | random | never
	Seed       uint64 `json:"seed,omitempty"`
	Poison     bool   `json:"poison,omitempty"`
	Quarantine int    `json:"quarantine,omitempty"`
}

type Plan struct {
	Config     ConfigPlan `json:"config"`
	RPCs       []RPCPlan  `json:"rpcs"`
	Concurrent bool       `json:"concurrent,omitempty"` // RPCs overlap on one transcoder; otherwise run one after another
	Sched      SchedPlan  `json:"sched"`
	Pool       PoolPlan   `json:"pool"`
	StepCap    int        `json:"step_cap,omitempty"`
	LibFaults  []Fault    `json:"lib_faults,omitempty"` // codec / compressor call failures
	Note       string     `json:"note,omitempty"`
}

func (p *Plan) clone() *Plan {
	return cloneJSON(p)
}

// normalize makes "set but empty" byte fields survive a JSON round trip (replay files, shrinking): the Has* flags
// are derived from non-nil slices, and nil slices whose flag is set become empty ones. Idempotent.
func (p *Plan) normalize() {
	for i := range p.RPCs {
		p.RPCs[i].normalize()
	}
}

func (r *RPCPlan) normalize() {
	fix := func(b *[]byte, has *bool) {
		if *b != nil {
			*has = true
		} else if *has {
			*b = []byte{}
		}
	}
	fix(&r.Client.RawBody, &r.Client.HasRawBody)
	for i := range r.Client.Msgs {
		fix(&r.Client.Msgs[i].RawPayload, &r.Client.Msgs[i].HasRaw)
	}
	fix(&r.Backend.Resp.RawBody, &r.Backend.Resp.HasRawBody)
	fix(&r.Backend.Resp.EndRaw, &r.Backend.Resp.HasEndRaw)
	for i := range r.Backend.Resp.Msgs {
		fix(&r.Backend.Resp.Msgs[i].RawPayload, &r.Backend.Resp.Msgs[i].HasRaw)
	}
}
