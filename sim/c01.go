package verifsim

import (
	"fmt"

	"google.golang.org/protobuf/reflect/protoreflect"
)

// Shared delivery oracle: conservation, order and exactly-once of the two message streams of one
// fault-free RPC, plus the expected disposition. Used by C01 and, as a sanity layer, by others.

type deliveryExpect struct {
	mustSucceed bool // fault-free, representable, in-limit
}

func planMethod(p *Plan, ri int) (sch *Schema, md protoreflect.MethodDescriptor) {
	r := &p.RPCs[ri]
	sch = getSchema(r.Client.Service)
	if sch == nil {
		return nil, nil
	}
	return sch, sch.method(r.Client.Method)
}

// checkDelivery appends violations for RPC ri of run r to v.
func checkDelivery(v *Verdict, p *Plan, r *RunResult, ri int, facts map[string]string) {
	st := r.RPCs[ri]
	rc := &p.RPCs[ri]
	_, md := planMethod(p, ri)
	if md == nil || st.Rejected != "" {
		return
	}
	if r.Deadlock || r.StepCap {
		v.violate("hang", facts, "fault-free run did not terminate: %v", r.World.DeadlockAt)
		return
	}
	if st.ServePanic != "" {
		v.violate("panic", facts, "ServeHTTP panicked: %s", st.ServePanic)
		return
	}
	if len(st.Backend) != 1 {
		v.violate("not-dispatched", facts, "fault-free admissible request was dispatched %d times; client outcome %s", len(st.Backend), outcomeBrief(st.Outcome))
		return
	}
	b := st.Backend[0]
	// the one precisely attributable wire defect: a frame whose compressed bit is unset, inside a stream with
	// negotiated compression, forwarded to an un-enveloped peer whose header still declares the compression
	if !b.Stream && b.Compression != "" && len(b.Undecodable) > 0 && enveloped(rc.Client.Form) {
		for _, m := range rc.Client.Msgs {
			if !m.Compressed {
				f2 := copyFacts(facts)
				f2["dir"] = "request"
				v.violate("raw-frame-declared-compressed", f2, "request frame with compressed bit unset reached a %s backend raw under %s: %s: %v", b.Protocol, "Content-Encoding", b.Compression, b.Undecodable)
				return
			}
		}
	}
	if o := st.Outcome; o != nil && !enveloped(rc.Client.Form) && o.RespCompression != "" && o.Kind == "invalid" && b.Stream {
		for _, m := range rc.Backend.Resp.Msgs {
			if !m.Compressed {
				f2 := copyFacts(facts)
				f2["dir"] = "response"
				v.violate("raw-frame-declared-compressed", f2, "response frame with compressed bit unset reached the %s client raw under Content-Encoding %s: %v", rc.Client.Form, o.RespCompression, o.Problems)
				return
			}
		}
	}
	// request direction
	var sent [][]byte
	for _, m := range rc.Client.Msgs {
		sent = append(sent, m.Data)
	}
	if len(b.Msgs) != len(sent) {
		v.violate("request-count", facts, "client sent %d request messages, backend decoded %d (undecodable: %v; problems: %v)", len(sent), len(b.Msgs), b.Undecodable, b.Problems)
	} else {
		for i := range sent {
			if !msgEqualBytes(md.Input(), sent[i], b.Msgs[i]) {
				v.violate("request-content", facts, "request message %d arrived altered: sent %x got %x", i, sent[i], b.Msgs[i])
				break
			}
		}
	}
	if len(b.Msgs) > 0 {
		v.Nontrivial = true
	}
	// response direction
	o := st.Outcome
	if o == nil {
		v.violate("no-outcome", facts, "no response was produced")
		return
	}
	var want [][]byte
	for _, m := range rc.Backend.Resp.Msgs {
		want = append(want, m.Data)
	}
	wantErr := rc.Backend.Resp.Err
	switch {
	case wantErr == nil:
		if o.Kind != "ok" {
			v.violate("unexpected-failure", facts, "backend answered OK with %d messages; client saw %s", len(want), outcomeBrief(o))
			return
		}
	default:
		if o.Kind == "ok" {
			v.violate("error-became-success", facts, "backend failed with %s; client saw success", codeName(wantErr.Code))
			return
		}
	}
	unaryClient := rc.Client.Form == FormConnectUnary || rc.Client.Form == FormConnectGet || rc.Client.Form == FormREST
	if wantErr != nil && unaryClient {
		want = nil // a unary client cannot see messages of a failed RPC
	}
	if len(o.Msgs) != len(want) {
		v.violate("response-count", facts, "backend sent %d response messages, client decoded %d (%s)", len(want), len(o.Msgs), outcomeBrief(o))
		return
	}
	for i := range want {
		if !msgEqualBytes(md.Output(), want[i], o.Msgs[i]) {
			v.violate("response-content", facts, "response message %d arrived altered: sent %x got %x; problems %v", i, want[i], o.Msgs[i], o.Problems)
			return
		}
	}
}

func outcomeBrief(o *Outcome) string {
	if o == nil {
		return "<none>"
	}
	s := fmt.Sprintf("%s http=%d msgs=%d", o.Kind, o.HTTPStatus, len(o.Msgs))
	if o.Err != nil {
		s += fmt.Sprintf(" code=%s msg=%q", codeName(o.Err.Code), o.Err.Msg)
	}
	if o.Kind == "bare-http" {
		s += fmt.Sprintf(" body=%q", truncate(o.BareBody, 120))
	}
	if len(o.Problems) > 0 {
		s += fmt.Sprintf(" problems=%v", o.Problems)
	}
	return s
}

func truncate(s string, n int) string {
	if len(s) > n {
		return s[:n] + "..."
	}
	return s
}

func c01Oracle(p *Plan) *Verdict {
	v := &Verdict{}
	r := Run(p)
	v.absorb(r)
	if r.World != nil {
		v.Trace = r.World.Log
	}
	facts := scenarioFacts(p, 0)
	rc := &p.RPCs[0]
	v.Class = fmt.Sprintf("%s>%s/%s/%s/%s/%s", facts["form"], facts["target"], facts["path"], facts["shape"], rc.Client.Codec, rc.Client.Compression)
	if r.BuildErr != "" {
		v.violate("config-rejected", map[string]string{}, "NewTranscoder refused a valid configuration: %s", r.BuildErr)
		return v
	}
	mixed := false
	for _, m := range rc.Client.Msgs {
		if !m.Compressed && rc.Client.Compression != "" {
			mixed = true
		}
	}
	if mixed {
		v.probe("uncompressed-frame-in-compressed-stream")
	}
	checkDelivery(v, p, r, 0, facts)
	for _, s := range r.Env.pool.Violations {
		v.Incidental = append(v.Incidental, "pool: "+s)
	}
	return v
}

func init() {
	register(&Check{
		ID:    "C01",
		Level: "exploration",
		Rule: "seeded fault-free single-RPC scenarios on the dynamic sim service: client form (Connect unary POST/GET, Connect streaming, gRPC, gRPC-Web) x method shape x " +
			"non-empty subsets of target protocols/codecs (proto, json, alt) and subsets of compressions (gzip, deflate) x client codec/compression x per-frame compressed flags in both directions x " +
			"edge-valued AllTypes messages; oracle = sequence equality (proto.Equal) of both message streams between two independent protocol peers; " +
			"distinct = (form>target/path/shape/codec/compression, schedule hash); non-trivial = the backend decoded at least one request message",
		Gen: func(c *Chooser, tier string) *Plan {
			o := ScenOpts{MaxMsgs: 4, MaxBytes: 300, Segment: c.Prob(0.3)}
			if tier == "thorough" {
				o.MaxMsgs, o.MaxBytes = 12, 70000
			}
			return genScenario(c, o)
		},
		Oracle:     c01Oracle,
		Components: stdComponents,
		Assumptions: []string{"protobuf-go and protojson are shared by the reference peers and the code under test",
			"REST legs are covered by C07's reference binder, not here"},
	})
}

func copyFacts(f map[string]string) map[string]string {
	out := map[string]string{}
	for k, v := range f {
		out[k] = v
	}
	return out
}
