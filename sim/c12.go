package verifsim

import (
	"fmt"
	"math/big"
	"strings"
)

// C12: deadlines are propagated to the backend and never extended.

var c12Forms = []string{FormGRPC, FormGRPCWeb, FormConnectUnary, FormConnectStream, FormConnectGet, FormREST}
var c12Targets = []string{ProtoConnect, ProtoGRPC, ProtoGRPCWeb, ProtoREST}

func timeoutHeaderOf(form string) string {
	switch form {
	case FormGRPC, FormGRPCWeb:
		return "Grpc-Timeout"
	case FormREST:
		return "X-Server-Timeout"
	}
	return "Connect-Timeout-Ms"
}

func timeoutHeaderOfTarget(proto string) string {
	switch proto {
	case ProtoGRPC, ProtoGRPCWeb:
		return "Grpc-Timeout"
	case ProtoREST:
		return "X-Server-Timeout"
	}
	return "Connect-Timeout-Ms"
}

// valid timeout values per client encoding: boundaries of digit counts and unit switches
func c12ValidValues(hdr string) []string {
	var out []string
	nums := []string{"0", "1", "9", "10", "99", "100", "999", "1000", "9999", "10000", "99999", "100000", "999999", "1000000", "9999999", "10000000", "99999999", "00000001", "59", "60", "61", "3599", "3600", "3601", "86400", "12345678"}
	switch hdr {
	case "Grpc-Timeout":
		for _, u := range "HMSmun" {
			for _, n := range nums {
				out = append(out, n+string(u))
			}
		}
	case "Connect-Timeout-Ms":
		out = append(out, nums...)
		out = append(out, "100000000", "999999999", "1000000000", "9999999999", "0000000001", "28800000", "28800001")
	default:
		out = append(out, "0", "1", "1.5", "0.001", "0.0005", "0.000000001", "0.0000000015", "60", "3600", "28800", "28800.5", "86400", "99999999", "0.1", "0.25", "10.000000001", "1.0", "01", "5.", ".5")
	}
	return out
}

func c12Malformed(hdr string) []string {
	switch hdr {
	case "Grpc-Timeout":
		return []string{"1", "S", "1x", "1s", "1h", "-1S", "1.5S", "123456789S", "1 S", "1S1", "SS", "0x1S", "١S", "1µ", "n1", "1e3S", "999999999n"}
	case "Connect-Timeout-Ms":
		return []string{"abc", "-1", "1.5", "1e3", "5 5", "0x10", "ten", "1ms", "١", "1,000", "--1"}
	}
	return []string{"abc", "-1", "1s", "1,5", "--1", "1e", "0x", "one", "1 2", "-0.5", "NaN", "Inf", "-Inf", "Infinity"}
}

// practicalRange: beyond this a timeout may be clamped or treated as unbounded (gRPC implementations use 8 hours)
var practicalRangeNs = new(big.Rat).SetInt64(8 * 3600 * 1e9)

func maxRepresentableNs(hdr string) *big.Rat {
	switch hdr {
	case "Grpc-Timeout":
		return new(big.Rat).SetInt(new(big.Int).Mul(big.NewInt(99999999), big.NewInt(3600e9)))
	case "Connect-Timeout-Ms":
		return new(big.Rat).SetInt(new(big.Int).Mul(big.NewInt(9999999999), big.NewInt(1e6)))
	}
	return nil
}

func unitNs(hdr, value string) *big.Rat {
	switch hdr {
	case "Grpc-Timeout":
		if len(value) == 0 {
			return big.NewRat(1, 1)
		}
		switch value[len(value)-1] {
		case 'H':
			return big.NewRat(3600e9, 1)
		case 'M':
			return big.NewRat(60e9, 1)
		case 'S':
			return big.NewRat(1e9, 1)
		case 'm':
			return big.NewRat(1e6, 1)
		case 'u':
			return big.NewRat(1e3, 1)
		}
		return big.NewRat(1, 1)
	case "Connect-Timeout-Ms":
		return big.NewRat(1e6, 1)
	}
	return big.NewRat(2, 1) // decimal seconds: allow float64 rounding of a nanosecond count
}

func c12Plan(form, target, value string, codec string) *Plan {
	svc := ServicePlan{Schema: "sim", Protocols: []string{target}, MaxMsg: 1 << 20}
	method := "RestAllNSE"
	if form == FormConnectStream {
		if target == ProtoREST {
			return nil // a streaming method has no REST binding
		}
		method = "ServerStream"
	}
	cp := ClientPlan{Form: form, HTTP: 2, Service: "sim", Method: method, Codec: codec, Timeout: value, Msgs: []MsgSpec{{Data: []byte{}}}}
	if form == FormREST {
		cp.HTTPMethod, cp.Path, cp.RestJSON, cp.Msgs = "POST", "/sim/v1/allnse", []byte("{}"), nil
	}
	bp := BackendPlan{Resp: RespPlan{Msgs: []MsgSpec{{Data: []byte{}}}, TrailerStyle: "prefix"}}
	return &Plan{Config: ConfigPlan{Services: []ServicePlan{svc}}, RPCs: []RPCPlan{{Client: cp, Backend: bp}}, Sched: SchedPlan{Policy: "seq"}, Pool: PoolPlan{Policy: "lifo"}}
}

func c12Oracle(p *Plan) *Verdict {
	v := &Verdict{}
	r := Run(p)
	v.absorb(r)
	if r.World != nil {
		v.Trace = r.World.Log
	}
	rc := &p.RPCs[0]
	svc := &p.Config.Services[0]
	inHdr := timeoutHeaderOf(rc.Client.Form)
	target := svc.protocols()[0]
	outHdr := timeoutHeaderOfTarget(target)
	facts := map[string]string{"in": inHdr, "out": outHdr}
	v.Class = fmt.Sprintf("%s>%s/%s", rc.Client.Form, target, rc.Client.Timeout)
	if r.BuildErr != "" {
		v.Incidental = append(v.Incidental, "build: "+r.BuildErr)
		return v
	}
	st := r.RPCs[0]
	if st.Rejected != "" {
		return v
	}
	v.Nontrivial = true
	if st.ServePanic != "" {
		v.violate("panic", facts, "ServeHTTP panicked: %s at %s", st.ServePanic, st.ServePanicStack)
		return v
	}
	val := strings.TrimSpace(rc.Client.Timeout)
	o := st.Outcome
	if val == "" {
		v.probe("no-timeout")
		if b := st.backend(); b != nil {
			for _, h := range []string{"Grpc-Timeout", "Connect-Timeout-Ms", "X-Server-Timeout"} {
				if b.Header.Get(h) != "" {
					v.violate("timeout-invented", facts, "the client sent no timeout; the backend received %s: %s", h, b.Header.Get(h))
				}
			}
		}
		return v
	}
	if inHdr == "Connect-Timeout-Ms" && len(val) > 10 && strings.Trim(val, "0123456789") == "" {
		// more digits than the Connect grammar allows: the oracle does not say whether such a value is refused or taken as
		// the (huge) number it spells. If it is taken, it is far beyond the practical range: it may be clamped to that range
		// or dropped as unbounded - not turned into a short timeout.
		v.probe("connect-over-10-digits")
		if b := st.backend(); b != nil && formProtocol(rc.Client.Form) != target {
			v.probe("connect-over-10-digits-dispatched")
			if got := b.Header.Get(outHdr); got != "" {
				if dOut, okOut := refTimeoutNanos(outHdr, got); okOut && new(big.Rat).Add(dOut, unitNs(outHdr, got)).Cmp(practicalRangeNs) < 0 {
					v.violate("huge-timeout-shortened", facts, "%s: %q (more than 292 years) became %s: %q (= %s ns)", inHdr, val, outHdr, got, dOut.FloatString(0))
				}
			}
		}
		return v
	}
	d, ok := refTimeoutNanos(inHdr, val)
	if !ok {
		v.probe("malformed")
		if len(st.Backend) > 0 {
			f := copyFacts(facts)
			v.violate("malformed-timeout-dispatched", f, "%s: %q is malformed, yet the backend was invoked (it saw %s: %q)", inHdr, val, outHdr, st.Backend[0].Header.Get(outHdr))
		} else if o != nil && o.sawSuccess() {
			v.violate("malformed-timeout-succeeded", facts, "%s: %q is malformed, yet the client saw success", inHdr, val)
		} else if o != nil && o.Kind == "bare-http" && (o.HTTPStatus < 400 || o.HTTPStatus > 499) {
			v.violate("malformed-timeout-not-client-error", facts, "%s: %q is malformed; answered with HTTP %d, not a client error", inHdr, val, o.HTTPStatus)
		}
		return v
	}
	v.probe("valid")
	if len(st.Backend) == 0 {
		f := copyFacts(facts)
		v.violate("valid-timeout-rejected", f, "%s: %q is a valid timeout, but the request was rejected: %s", inHdr, val, outcomeBrief(o))
		return v
	}
	b := st.Backend[0]
	got := b.Header.Get(outHdr)
	for _, h := range []string{"Grpc-Timeout", "Connect-Timeout-Ms", "X-Server-Timeout"} {
		if h != outHdr && b.Header.Get(h) != "" && !(h == inHdr && formProtocol(rc.Client.Form) == target) {
			if other, ok2 := refTimeoutNanos(h, b.Header.Get(h)); !ok2 || other.Cmp(d) > 0 {
				v.violate("leftover-timeout-header", facts, "the backend also received %s: %q next to %s: %q", h, b.Header.Get(h), outHdr, got)
			}
		}
	}
	beyond := d.Cmp(practicalRangeNs) > 0
	if got == "" {
		if !beyond {
			f := copyFacts(facts)
			v.violate("timeout-dropped", f, "%s: %q (= %s ns) reached the backend without any %s: the deadline became unbounded", inHdr, val, d.FloatString(0), outHdr)
		} else {
			v.probe("beyond-range-dropped")
		}
		return v
	}
	dOut, ok := refTimeoutNanos(outHdr, got)
	if !ok {
		v.violate("timeout-malformed-at-backend", facts, "the backend received %s: %q, which is not a valid timeout", outHdr, got)
		return v
	}
	if dOut.Cmp(d) > 0 {
		// float formatting of decimal seconds may round half a nanosecond up
		diff := new(big.Rat).Sub(dOut, d)
		if !((outHdr == "X-Server-Timeout" || inHdr == "X-Server-Timeout") && diff.Cmp(big.NewRat(1, 1)) < 0) { // decimal seconds go through float64: sub-nanosecond slack
			v.violate("timeout-extended", facts, "%s: %q (= %s ns) became %s: %q (= %s ns): longer than the client's", inHdr, val, d.FloatString(0), outHdr, got, dOut.FloatString(0))
			return v
		}
	}
	short := new(big.Rat).Sub(d, dOut)
	if short.Cmp(unitNs(outHdr, got)) >= 0 {
		if max := maxRepresentableNs(outHdr); (max != nil && d.Cmp(max) > 0) || beyond {
			v.probe("beyond-range-clamped")
		} else {
			v.violate("timeout-shortened", facts, "%s: %q (= %s ns) became %s: %q (= %s ns): short by %s ns, a whole rounding unit or more", inHdr, val, d.FloatString(0), outHdr, got, dOut.FloatString(0), short.FloatString(0))
		}
	}
	return v
}

func c12All() []*Plan {
	var out []*Plan
	for _, form := range c12Forms {
		hdr := timeoutHeaderOf(form)
		vals := append(append([]string{""}, c12ValidValues(hdr)...), c12Malformed(hdr)...)
		if hdr == "Connect-Timeout-Ms" {
			// numbers with more than ten digits, around and beyond what a 64-bit count of nanoseconds holds
			vals = append(vals, "10000000000", "99999999999", "9223372036854", "9223372036855", "18446744073710", "27670116110564", "18446744073709552",
				"288230376151711744", "4611686018427387904", "9223372036854775807", "9223372036854775808", "18446744073709551616")
		}
		for _, target := range c12Targets {
			for _, val := range vals {
				codec := "proto"
				if form == FormREST {
					codec = "json"
				}
				if p := c12Plan(form, target, val, codec); p != nil {
					out = append(out, p)
				}
			}
		}
	}
	return out
}

func init() {
	register(&Check{
		ID:    "C12",
		Level: "exploration",
		Rule: "for each of the three client timeout encodings (Grpc-Timeout from gRPC and gRPC-Web clients, Connect-Timeout-Ms from the three Connect forms, X-Server-Timeout from REST clients) x each of the four target protocols: " +
			"(a fifth of the seeded cases with a request body that starts arriving 1..3000 simulated milliseconds late; a quarter under a request context that already carries a far looser deadline) no timeout, every boundary value of digit counts and unit switches (1..8 digits in all six gRPC units, 1..10 digit millisecond counts, decimal seconds incl. sub-millisecond and sub-nanosecond), seeded interior values, and malformed strings. " +
			"oracle: three independent grammars with exact rational arithmetic: valid d must reach the backend as d' with d - unit(target encoding) < d' <= d (beyond 8 hours or the target's range: clamped or dropped allowed); no timeout in => none out; " +
			"valid never rejected; malformed => no dispatch and a client error. Schedules and faults play no role in this property: the simulator supplies the closed world and the dispatch counter. " +
			"distinct = (client form, target, value); non-trivial = the request reached ServeHTTP. quick and thorough both run the full boundary table; the seeded part differs in size",
		Gen: func(c *Chooser, tier string) *Plan {
			form := c12Forms[c.Intn(len(c12Forms))]
			target := c12Targets[c.Intn(len(c12Targets))]
			hdr := timeoutHeaderOf(form)
			var val string
			switch hdr {
			case "Grpc-Timeout":
				val = fmt.Sprintf("%d%c", c.Intn(100000000)/Pick(c, 1, 10, 1000, 100000, 10000000), "HMSmun"[c.Intn(6)])
			case "Connect-Timeout-Ms":
				val = fmt.Sprintf("%d", c.Uint64()%10000000000/uint64(Pick(c, 1, 10, 1000, 100000, 10000000)))
				if c.Prob(0.1) {
					val = fmt.Sprintf("%d", c.Uint64()|1<<44) // 14 to 20 digits
				}
			default:
				val = fmt.Sprintf("%d.%0*d", c.Intn(40000), c.Range(1, 9), c.Intn(1000))
			}
			codec := Pick(c, "proto", "json")
			if form == FormREST {
				codec = "json"
			}
			p := c12Plan(form, target, val, codec)
			if p != nil && c.Prob(0.2) {
				// the body is slow to start: what the client allowed is still what the backend is told (the clock of the code
				// under test is the simulator's: the delay is exact and costs no real time)
				p.RPCs[0].Client.FirstByteDelayMs = Pick(c, 1, 7, 60, 3000)
				p.RPCs[0].Client.DeclareCL = "none"
			}
			if p != nil && c.Prob(0.25) {
				// the server already bounds the request, much more loosely than the client does: the client's bound stands
				if d, ok := refTimeoutNanos(hdr, val); ok && d.Cmp(big.NewRat(1800e9, 1)) < 0 {
					p.RPCs[0].Client.CtxDeadlineS = Pick(c, 3600, 86400)
				}
			}
			return p
		},
		Directed:   func(tier string) []*Plan { return c12All() },
		Oracle:     c12Oracle,
		NoShrink:   true,
		Components: stdComponents,
		Assumptions: []string{"grammars: gRPC = 1-8 ASCII digits + one of HMSmun; Connect = 1-10 ASCII digits; REST = non-negative decimal seconds",
			"a leading '+' and surrounding blanks are not generated (Go's integer parser and HTTP field parsing accept them); values beyond 8 hours may be clamped or dropped"},
	})
}
