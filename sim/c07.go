package verifsim

import (
	"fmt"
	"strings"

	"google.golang.org/protobuf/proto"
	"google.golang.org/protobuf/reflect/protoreflect"
)

// C07: REST binding follows google.api.http; converting to REST and back is the identity.

var pathValuePool = []string{"x", "abc", "a b", "a%b", "a+b", "ü", "日本", "a:b", "a.b", "~t", "100%25", "%2F", "a?b", "a#b", "a&b=c", "semi;colon", "UPPER", "-", "_", "0", "q\"q", "a,b", "[x]", "@", "sp ace"}

// sanitizeForBinding edits m so that it can be expressed as a REST request under b.
func sanitizeForBinding(c *Chooser, b *refBinding, m protoreflect.Message) {
	bodyAll := b.body == "*"
	bodyField := b.bodyField()
	var clean func(cur protoreflect.Message, depth int)
	clean = func(cur protoreflect.Message, depth int) {
		fields := cur.Descriptor().Fields()
		for i := 0; i < fields.Len(); i++ {
			fd := fields.Get(i)
			if !cur.Has(fd) {
				continue
			}
			if depth == 0 && bodyField != nil && fd.Number() == bodyField.Number() {
				continue
			}
			switch {
			case fd.Message() != nil && opaqueJSONMessage(fd.Message()):
				cur.Clear(fd) // field paths into Value/Struct/ListValue/Any are not a thing: their JSON form is not an object of their fields
			case isParamField(fd):
				if fd.Kind() == protoreflect.EnumKind && !fd.IsList() && fd.Enum().Values().ByNumber(cur.Get(fd).Enum()) == nil {
					cur.Clear(fd)
				}
			case fd.Message() != nil && !fd.IsList() && !fd.IsMap() && depth < 2:
				clean(cur.Mutable(fd).Message(), depth+1)
			default:
				cur.Clear(fd)
			}
		}
	}
	if !bodyAll {
		clean(m, 0)
	}
	// path variables must be present and fit their sub-template
	for _, v := range b.tmpl.vars {
		fds, ok := fieldByPath(m.Descriptor(), v.path, false)
		if !ok {
			continue
		}
		cur := m
		for _, fd := range fds[:len(fds)-1] {
			cur = cur.Mutable(fd).Message()
		}
		fd := fds[len(fds)-1]
		end := v.end
		if end == -1 {
			end = len(b.tmpl.segs)
		}
		multi := v.end == -1 || end-v.start > 1
		if fd.Kind() == protoreflect.StringKind {
			var parts []string
			for _, s := range b.tmpl.segs[v.start:end] {
				switch s.kind {
				case "lit":
					parts = append(parts, s.lit)
				case "star":
					parts = append(parts, pathValuePool[c.Intn(len(pathValuePool))])
				case "dstar":
					for k, n := 0, c.Range(1, 3); k < n; k++ {
						parts = append(parts, pathValuePool[c.Intn(len(pathValuePool))])
					}
				}
			}
			val := strings.Join(parts, "/")
			if !multi {
				val = strings.ReplaceAll(val, "/", "-")
			} else {
				val = strings.ReplaceAll(val, "%2F", "pct") // a literal "%2F" inside a multi-segment value is not expressible (abstention)
			}
			cur.Set(fd, protoreflect.ValueOfString(val))
			continue
		}
		if !cur.Has(fd) || fd.Kind() == protoreflect.BytesKind && len(cur.Get(fd).Bytes()) == 0 {
			switch {
			case fd.Message() != nil:
				fillMessage(c, cur.Mutable(fd).Message(), &MsgGenOpts{MaxDepth: 1, MaxBytes: 8}, 1)
			case fd.Kind() == protoreflect.BytesKind:
				cur.Set(fd, protoreflect.ValueOfBytes([]byte{1, 2, 0xff}))
			default:
				cur.Set(fd, genScalar(c, fd, &MsgGenOpts{MaxBytes: 8}))
			}
		}
	}
}

type restCase struct {
	schema, method string
}

var restMethods = []restCase{
	{"sim2", "Query"}, {"sim2", "PathStr"}, {"sim2", "PathMulti"}, {"sim2", "PathNested"}, {"sim2", "BodyStar"}, {"sim2", "BodyNested"}, {"sim2", "BodyList"}, {"sim2", "BodyScalar"},
	{"sim2", "Bytes"}, {"sim2", "Del"},
	{"sim2", "RawBody"}, {"sim2", "Upload"},
	{"library", "GetBook"}, {"library", "CreateBook"}, {"library", "ListBooks"}, {"library", "CreateShelf"}, {"library", "UpdateBook"}, {"library", "DeleteBook"}, {"library", "SearchBooks"},
	{"library", "MoveBooks"}, {"library", "CheckoutBooks"}, {"library", "ReturnBooks"}, {"library", "GetCheckout"}, {"library", "ListCheckouts"}, {"library", "ListShelves"},
	{"sim", "RestAll"},
}

// tidyHTTPBody keeps a google.api.HttpBody to what its raw form can carry: bytes and a content type. (The extensions
// field has no place in a raw body, and which content type stands for "none" is not defined.)
func tidyHTTPBody(c *Chooser, m protoreflect.Message) {
	if !isHTTPBodyMsg(m.Descriptor()) {
		fds := m.Descriptor().Fields()
		for i := 0; i < fds.Len(); i++ {
			if fd := fds.Get(i); !fd.IsList() && !fd.IsMap() && isHTTPBodyMsg(fd.Message()) && m.Has(fd) {
				tidyHTTPBody(c, m.Mutable(fd).Message())
			}
		}
		return
	}
	fs := m.Descriptor().Fields()
	m.Clear(fs.ByName("extensions"))
	ct := m.Get(fs.ByName("content_type")).String()
	ok := ct != ""
	for _, r := range ct {
		if r < 0x21 || r > 0x7e {
			ok = false
		}
	}
	if !ok {
		m.Set(fs.ByName("content_type"), protoreflect.ValueOfString(Pick(c, "application/octet-stream", "text/plain", "image/png", "application/x-custom+thing")))
	}
}

// genRESTClientRPC draws one well-formed REST request for a bound method of cfg (rendered by the reference encoder from a
// seeded message) and a one-message answer.
func genRESTClientRPC(c *Chooser, cfg *ConfigPlan, rcase restCase) *RPCPlan {
	b := bindingOf(cfg, rcase.schema, rcase.method)
	if b == nil {
		return nil
	}
	mo := &MsgGenOpts{MaxDepth: 2, MaxBytes: 24, SingleEntry: true}
	msg := genMessage(c, b.method.Input(), mo, 0)
	sanitizeForBinding(c, b, msg.ProtoReflect())
	tidyHTTPBody(c, msg.ProtoReflect())
	resp := genMessage(c, b.method.Output(), mo, 0)
	tidyHTTPBody(c, resp.ProtoReflect())
	req, ok := refEncodeRequest(b, msg, c.Bool())
	if !ok {
		return nil
	}
	cp := ClientPlan{Form: FormREST, HTTP: Pick(c, 1, 2), Service: rcase.schema, Method: rcase.method, Codec: "json", HTTPMethod: req.Method, Path: req.Path, RawQuery: req.RawQuery}
	if req.HasBody {
		cp.RestJSON = req.Body
		if cp.RestJSON == nil {
			cp.RestJSON = []byte{}
		}
		cp.ContentType = req.ContentType
	}
	return &RPCPlan{Client: cp, Backend: BackendPlan{Resp: RespPlan{Msgs: []MsgSpec{{Data: canonBytes(resp)}}, TrailerStyle: "prefix"}}}
}

func bindingOf(cfg *ConfigPlan, schema, method string) *refBinding {
	for _, b := range refTable(cfg) {
		if b.svc.Schema == schema && string(b.method.Name()) == method {
			return b
		}
	}
	return nil
}

// expectedRESTResponse: what a REST client must decode for the backend's response message under binding b.
func expectedRESTResponse(b *refBinding, data []byte) []byte {
	m := newMessageFor(b.method.Output())
	if proto.Unmarshal(data, m) != nil {
		return nil
	}
	if b.respIsHTTPBody() {
		body, ct := refEncodeResponse(b, m)
		return append([]byte("httpbody:"+ct+":"), body...)
	}
	f := b.respField()
	if f == nil {
		return canonBytes(m)
	}
	if f.Message() != nil && !f.IsList() && !f.IsMap() {
		return canonBytes(m.ProtoReflect().Get(f).Message().Interface())
	}
	// only the field survives
	only := newMessageFor(b.method.Output())
	if m.ProtoReflect().Has(f) {
		only.ProtoReflect().Set(f, m.ProtoReflect().Get(f))
	}
	return canonBytes(only)
}

func c07Oracle(p *Plan) *Verdict {
	v := &Verdict{}
	r := Run(p)
	v.absorb(r)
	if r.World != nil {
		v.Trace = r.World.Log
	}
	rc := &p.RPCs[0]
	topo := p.Note
	facts := map[string]string{"topology": topo, "method": rc.Client.Service + "." + rc.Client.Method}
	v.Class = fmt.Sprintf("%s/%s.%s/%s", topo, rc.Client.Service, rc.Client.Method, rc.Client.Form)
	if r.BuildErr != "" {
		v.Incidental = append(v.Incidental, "build: "+r.BuildErr)
		return v
	}
	st := r.RPCs[0]
	if st.Rejected != "" || st.Outcome == nil {
		return v
	}
	v.Nontrivial = true
	if st.ServePanic != "" {
		v.violate("panic", facts, "ServeHTTP panicked: %s at %s", st.ServePanic, st.ServePanicStack)
		return v
	}
	sch := getSchema(rc.Client.Service)
	b := bindingOf(&p.Config, rc.Client.Service, rc.Client.Method)
	if sch == nil || b == nil {
		return v
	}
	md := b.method
	o := st.Outcome
	switch topo {
	case "rest-client":
		raw := st.orig.RequestURI
		if i := strings.IndexByte(raw, '?'); i >= 0 {
			raw = raw[:i]
		}
		res := resolveRef(refTable(&p.Config), st.orig.Method, raw)
		if res.kind != "dispatch" || res.binding.method.FullName() != md.FullName() {
			v.Incidental = append(v.Incidental, "reference router does not dispatch the generated request: "+res.kind+" "+res.why)
			return v
		}
		want, err := refBind(res.binding, res.captures, st.orig.RawQuery, st.orig.Header.Get("Content-Type"), st.rendered.Body, false)
		if err != nil {
			if _, isBind := err.(*bindError); !isBind {
				v.Infra = append(v.Infra, "reference binder: "+err.Error())
				return v
			}
			v.probe("ill-typed-parameter")
			for _, bo := range st.Backend {
				if len(bo.Msgs) > 0 {
					v.violate("ill-typed-parameter-delivered", facts, "the reference binder rejects the request (%v) but the backend received a message", err)
				}
			}
			if o.sawSuccess() {
				v.violate("ill-typed-parameter-succeeded", facts, "the reference binder rejects the request (%v) but the client saw success", err)
			} else if be := err.(*bindError); !be.unknown && o.effectiveCode() != 3 {
				f := copyFacts(facts)
				f["code"] = codeName(o.effectiveCode())
				v.violate("ill-typed-parameter-code", f, "the reference binder rejects the request (%v); expected invalid_argument, client saw %s", err, outcomeBrief(o))
			}
			return v
		}
		v.probe("well-typed")
		if len(st.Backend) != 1 {
			v.violate("rest-request-not-dispatched", facts, "a well-formed REST request (%s %s) was not dispatched: %s", st.orig.Method, st.orig.RequestURI, outcomeBrief(o))
			return v
		}
		bo := st.Backend[0]
		if bo.RPCMethod != string(md.FullName()) {
			v.violate("rest-wrong-method", facts, "REST request %s %s reached %s, the binding belongs to %s", st.orig.Method, st.orig.RequestURI, bo.RPCMethod, md.FullName())
			return v
		}
		if len(bo.Msgs) != 1 || !msgEqualLoose(md.Input(), bo.Msgs[0], canonBytes(want)) {
			got := "<none>"
			if len(bo.Msgs) == 1 {
				got = fmt.Sprintf("%x", bo.Msgs[0])
			}
			v.violate("rest-binding-differs", facts, "request %s %s body=%q: backend message differs from the reference binder\n got  %s\n want %x\n backend problems: %v",
				st.orig.Method, st.orig.RequestURI, truncate(string(st.rendered.Body), 200), truncate(got, 600), canonBytes(want), bo.Undecodable)
			return v
		}
		// response
		if len(rc.Backend.Resp.Msgs) == 1 && rc.Backend.Resp.Err == nil {
			wantResp := expectedRESTResponse(b, rc.Backend.Resp.Msgs[0].Data)
			if !o.sawSuccess() || len(o.Msgs) != 1 {
				v.violate("rest-response-failed", facts, "backend answered OK; REST client saw %s", outcomeBrief(o))
			} else if b.respIsHTTPBody() {
				if string(o.Msgs[0]) != string(wantResp) {
					v.violate("rest-response-differs", facts, "HttpBody response differs: got %q want %q", truncate(string(o.Msgs[0]), 200), truncate(string(wantResp), 200))
				}
			} else {
				out := md.Output()
				if f := b.respField(); f != nil && f.Message() != nil && !f.IsList() && !f.IsMap() {
					out = f.Message()
				}
				if !msgEqualLoose(out, o.Msgs[0], wantResp) {
					v.violate("rest-response-differs", facts, "response body is not the JSON of the response_body selection: got %x want %x (body %q)", o.Msgs[0], wantResp, truncate(string(st.rw.Visible), 300))
				}
			}
		}
	case "rest-backend":
		if len(st.Backend) != 1 {
			v.violate("to-rest-not-dispatched", facts, "an RPC for a REST-only backend was not dispatched: %s", outcomeBrief(o))
			return v
		}
		bo := st.Backend[0]
		if bo.Protocol != ProtoREST {
			v.Incidental = append(v.Incidental, "backend protocol "+bo.Protocol)
			return v
		}
		want := rc.Client.Msgs[0].Data
		if len(bo.Undecodable) > 0 || len(bo.Msgs) != 1 {
			v.violate("to-rest-request-unparsable", facts, "the REST request built by the transcoder (%s %s?%s body=%q) does not re-parse under its own rule: %v", bo.Method, bo.Path, bo.RawQuery, truncate(string(bo.Body), 200), bo.Undecodable)
			return v
		}
		if bo.RPCMethod != string(md.FullName()) {
			v.violate("to-rest-wrong-binding", facts, "the REST request built for %s resolves to %s", md.FullName(), bo.RPCMethod)
			return v
		}
		if !msgEqualLoose(md.Input(), bo.Msgs[0], want) {
			v.violate("to-rest-roundtrip-differs", facts, "message -> REST (%s %s?%s body=%q) -> message is not the identity:\n got  %x\n want %x", bo.Method, bo.RawPath+"|"+bo.Path, bo.RawQuery, truncate(string(bo.Body), 200), bo.Msgs[0], want)
			return v
		}
		v.probe("roundtrip-ok")
		if len(rc.Backend.Resp.Msgs) == 1 && rc.Backend.Resp.Err == nil {
			wantResp := expectedRESTResponse(b, rc.Backend.Resp.Msgs[0].Data)
			if b.respIsHTTPBody() || (b.respField() != nil && b.respField().Message() != nil && !b.respField().IsList()) {
				return v // the RPC client receives the whole message type; covered through the rest-client topology
			}
			if !o.sawSuccess() || len(o.Msgs) != 1 {
				v.violate("from-rest-response-failed", facts, "REST backend answered OK; RPC client saw %s", outcomeBrief(o))
			} else if !msgEqualLoose(md.Output(), o.Msgs[0], wantResp) {
				v.violate("from-rest-response-differs", facts, "REST response -> RPC response differs: got %x want %x", o.Msgs[0], wantResp)
			}
		}
	}
	return v
}

func init() {
	register(&Check{
		ID:    "C07",
		Level: "exploration",
		Rule: "two topologies over 24 bound methods (the generated LibraryService annotations and a dynamic ParamService with nested, multi-segment, bytes, enum, timestamp variables, body '*', body = message / repeated / scalar field, response_body, verbs): " +
			"(rest-client) a REST request rendered from a seeded message by a reference encoder (URL-reserved characters, unicode, every scalar kind, wrappers, Timestamp/Duration/FieldMask, repeated values, JSON or proto parameter names), optionally with ill-typed or unknown query parameters, goes to an RPC backend; " +
			"the backend's decoded message must equal the reference binder's (body, then path variables, then query) and ill-typed parameters must give invalid_argument; the REST response must be the JSON of the response_body selection. " +
			"(rest-backend) an RPC client's message goes to a REST-only backend that re-parses the transcoder's request with the reference router and binder: the result must be the original message. " +
			"No schedule or fault dependence: closed world plus reference binder. distinct = (topology, method, client form, schedule hash); non-trivial = the request reached ServeHTTP",
		Gen: func(c *Chooser, tier string) *Plan {
			rcase := restMethods[c.Intn(len(restMethods))]
			topo := Pick(c, "rest-client", "rest-client", "rest-backend")
			svc := ServicePlan{Schema: rcase.schema, MaxMsg: 1 << 20}
			if topo == "rest-backend" {
				svc.Protocols = []string{ProtoREST}
			} else {
				svc.Protocols = genSubset(c, allTargetProtocols, true)
				svc.Codecs = genSubset(c, []string{"proto", "json"}, true)
			}
			cfg := ConfigPlan{Services: []ServicePlan{svc}}
			if rcase.schema == "sim2" && topo == "rest-client" && c.Prob(0.25) {
				// one more binding for the same method, added with WithRules, whose body and response_body differ from the
				// annotated one: which binding a request matched decides how it is bound and how its response is shaped
				// (towards a REST backend the choice of binding is the transcoder's, so this is for REST clients only)
				cfg.Rules = []RulePlan{{Selector: "sim.v1.ParamService." + rcase.method, Method: "POST", Template: "/p/v9/extra/" + strings.ToLower(rcase.method), Body: "*"}}
			}
			b := bindingOf(&cfg, rcase.schema, rcase.method)
			if b == nil {
				return nil
			}
			mo := &MsgGenOpts{MaxDepth: 2, MaxBytes: 24, SingleEntry: true, NoNaN: false}
			msg := genMessage(c, b.method.Input(), mo, 0)
			sanitizeForBinding(c, b, msg.ProtoReflect())
			tidyHTTPBody(c, msg.ProtoReflect())
			resp := genMessage(c, b.method.Output(), mo, 0)
			tidyHTTPBody(c, resp.ProtoReflect())
			bp := BackendPlan{Resp: RespPlan{Msgs: []MsgSpec{{Data: canonBytes(resp)}}, TrailerStyle: "prefix"}}
			var cp ClientPlan
			if topo == "rest-client" {
				req, ok := refEncodeRequest(b, msg, c.Bool())
				if !ok {
					return nil
				}
				cp = ClientPlan{Form: FormREST, HTTP: Pick(c, 1, 2), Service: rcase.schema, Method: rcase.method, Codec: "json", HTTPMethod: req.Method, Path: req.Path, RawQuery: req.RawQuery}
				if req.HasBody {
					cp.RestJSON = req.Body
					if cp.RestJSON == nil {
						cp.RestJSON = []byte{}
					}
					cp.ContentType = req.ContentType
				}
				if c.Prob(0.2) && !isHTTPBodyMsg(b.method.Input()) {
					extra := Pick(c, "int32_value=abc", "int32Value=2147483648", "bool_value=maybe", "uint32_value=-1", "page_size=1.5", "nosuchfield=1", "enum_value=NOPE", "double_value=1e999",
						"timestamp=yesterday", "duration=5", "nested.enum_value=7x", "int64_value=9223372036854775808", "bytes_value=!!!", "book.name.x=1", "string_map=a")
					if cp.RawQuery != "" {
						cp.RawQuery += "&"
					}
					cp.RawQuery += extra
				}
			} else {
				cp = ClientPlan{Form: Pick(c, FormGRPC, FormGRPCWeb, FormConnectUnary), HTTP: 2, Service: rcase.schema, Method: rcase.method, Codec: Pick(c, "proto", "json"), Msgs: []MsgSpec{{Data: canonBytes(msg)}}}
				if _, ok := refEncodeRequest(b, msg, false); !ok {
					return nil // not expressible under this rule: the transcoder may fail it
				}
			}
			p := &Plan{Config: cfg, RPCs: []RPCPlan{{Client: cp, Backend: bp}}, Sched: SchedPlan{Policy: "seq"}, Pool: PoolPlan{Policy: "lifo", Poison: c.Prob(0.7)}}
			// (poison: a buffer that goes back to the pool is overwritten at once, so bytes that a decoded message still
			// borrows from it - HttpBody data is not copied - show as wrong content, not as a lucky survival)
			p.Note = topo
			return p
		},
		Oracle:     c07Oracle,
		Components: stdComponents,
		Assumptions: []string{"the reference binder composes protojson (shared with the code under test) with its own path, query and selector handling", "query parameters are applied also when body is '*' (the statement lists them unconditionally)",
			"whether a decimal like 1.0 fits an integer field is not probed; ill-typed values are clearly ill-typed (letters, overflow, sign)"},
	})
}

func opaqueJSONMessage(md protoreflect.MessageDescriptor) bool {
	switch md.FullName() {
	case "google.protobuf.Value", "google.protobuf.Struct", "google.protobuf.ListValue", "google.protobuf.Any":
		return true
	}
	return false
}
