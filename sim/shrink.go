package verifsim

import (
	"time"
)

// shrinkPlan minimises plan while the violation's fingerprint stays the same.
// It returns the minimised plan, the violation as reported on it, and the number of candidate runs.
func shrinkPlan(ck *Check, plan *Plan, prop string, viol *Violation) (*Plan, *Violation, int) {
	fp := viol.Fingerprint(prop)
	best := plan.clone()
	bestViol := *viol
	runs := 0
	deadline := time.Now().Add(4 * time.Second)
	try := func(cand *Plan) bool {
		if runs >= 250 || time.Now().After(deadline) {
			return false
		}
		runs++
		v := ck.Oracle(cand)
		for i := range v.Violations {
			if v.Violations[i].Fingerprint(prop) == fp {
				best = cand
				bestViol = v.Violations[i]
				return true
			}
		}
		return false
	}
	plan.normalize()
	best = plan.clone()
	if !try(best.clone()) {
		// the serialised form does not reproduce: report the plan as found rather than a "minimised" one that fails to replay
		return plan, viol, runs
	}
	edit := func(f func(p *Plan) bool) bool {
		cand := best.clone()
		if !f(cand) {
			return false
		}
		return try(cand)
	}
	for pass := 0; pass < 3; pass++ {
		changed := false
		// schedule first: the simplest schedule that still fails
		if best.Sched.Policy != "seq" {
			changed = edit(func(p *Plan) bool { p.Sched = SchedPlan{Policy: "seq"}; return true }) || changed
		}
		if best.Pool.Policy != "lifo" || best.Pool.Quarantine != 0 {
			changed = edit(func(p *Plan) bool { p.Pool.Policy, p.Pool.Quarantine = "lifo", 0; return true }) || changed
		}
		// drop RPCs (from the front: history entries; keep the last one, usually the probe)
		for i := 0; i < len(best.RPCs)-1; {
			if edit(func(p *Plan) bool { p.RPCs = append(p.RPCs[:i:i], p.RPCs[i+1:]...); return true }) {
				changed = true
			} else {
				i++
			}
		}
		for i := range best.RPCs {
			i := i
			if len(best.RPCs[i].LibFaults) > 0 {
				changed = edit(func(p *Plan) bool { p.RPCs[i].LibFaults = nil; return true }) || changed
			}
		}
		if len(best.LibFaults) > 0 {
			changed = edit(func(p *Plan) bool { p.LibFaults = nil; return true }) || changed
		}
		for ri := range best.RPCs {
			ri := ri
			rp := func(p *Plan) *RPCPlan { return &p.RPCs[ri] }
			// segmentation to atomic
			changed = edit(func(p *Plan) bool {
				r := rp(p)
				if r.Client.Deliveries == nil {
					return false
				}
				r.Client.Deliveries = nil
				return true
			}) || changed
			changed = edit(func(p *Plan) bool {
				r := rp(p)
				if r.Backend.ReadSizes == nil {
					return false
				}
				r.Backend.ReadSizes = nil
				return true
			}) || changed
			changed = edit(func(p *Plan) bool {
				r := rp(p)
				if r.Backend.Resp.WriteMode == "" && !r.Backend.Resp.EmptyWrites && r.Backend.Resp.FlushEvery == 0 {
					return false
				}
				r.Backend.Resp.WriteMode, r.Backend.Resp.WriteSizes, r.Backend.Resp.EmptyWrites, r.Backend.Resp.FlushEvery = "", nil, false, 0
				return true
			}) || changed
			// single-size segmentations
			if len(best.RPCs[ri].Backend.ReadSizes) > 1 {
				for _, sz := range best.RPCs[ri].Backend.ReadSizes {
					sz := sz
					if edit(func(p *Plan) bool { rp(p).Backend.ReadSizes = []int{sz}; return true }) {
						changed = true
						break
					}
				}
			}
			if len(best.RPCs[ri].Client.Deliveries) > 1 {
				for _, sz := range best.RPCs[ri].Client.Deliveries {
					sz := sz
					if edit(func(p *Plan) bool { rp(p).Client.Deliveries = []int{sz}; return true }) {
						changed = true
						break
					}
				}
			}
			if len(best.RPCs[ri].Backend.Resp.WriteSizes) > 1 {
				for _, sz := range best.RPCs[ri].Backend.Resp.WriteSizes {
					sz := sz
					if edit(func(p *Plan) bool { rp(p).Backend.Resp.WriteSizes = []int{sz}; return true }) {
						changed = true
						break
					}
				}
			}
			// faults
			for fi := 0; fi < len(best.RPCs[ri].Client.Faults); {
				if edit(func(p *Plan) bool {
					r := rp(p)
					r.Client.Faults = append(r.Client.Faults[:fi:fi], r.Client.Faults[fi+1:]...)
					return true
				}) {
					changed = true
				} else {
					fi++
				}
			}
			// headers and trailers
			changed = edit(func(p *Plan) bool {
				r := rp(p)
				if len(r.Client.Headers) == 0 {
					return false
				}
				r.Client.Headers = nil
				return true
			}) || changed
			changed = edit(func(p *Plan) bool {
				r := rp(p)
				if len(r.Backend.Resp.Headers) == 0 && len(r.Backend.Resp.Trailers) == 0 {
					return false
				}
				r.Backend.Resp.Headers, r.Backend.Resp.Trailers = nil, nil
				return true
			}) || changed
			// messages: drop, then empty
			_, shMD := planMethod(best, ri)
			for mi := 0; mi < len(best.RPCs[ri].Client.Msgs); {
				if shMD == nil || !shMD.IsStreamingClient() {
					break // exactly one request message is part of being well-formed
				}
				if edit(func(p *Plan) bool {
					r := rp(p)
					r.Client.Msgs = append(r.Client.Msgs[:mi:mi], r.Client.Msgs[mi+1:]...)
					return true
				}) {
					changed = true
				} else {
					mi++
				}
			}
			for mi := 0; mi < len(best.RPCs[ri].Backend.Resp.Msgs); {
				if shMD == nil || !shMD.IsStreamingServer() {
					break
				}
				if edit(func(p *Plan) bool {
					r := rp(p)
					r.Backend.Resp.Msgs = append(r.Backend.Resp.Msgs[:mi:mi], r.Backend.Resp.Msgs[mi+1:]...)
					return true
				}) {
					changed = true
				} else {
					mi++
				}
			}
			for mi := range best.RPCs[ri].Client.Msgs {
				mi := mi
				changed = edit(func(p *Plan) bool {
					m := &rp(p).Client.Msgs[mi]
					if len(m.Data) == 0 || m.RawPayload != nil {
						return false
					}
					m.Data = []byte{}
					return true
				}) || changed
			}
			for mi := range best.RPCs[ri].Backend.Resp.Msgs {
				mi := mi
				changed = edit(func(p *Plan) bool {
					m := &rp(p).Backend.Resp.Msgs[mi]
					if len(m.Data) == 0 || m.RawPayload != nil {
						return false
					}
					m.Data = []byte{}
					return true
				}) || changed
			}
			// transport variants
			changed = edit(func(p *Plan) bool {
				r := rp(p)
				if r.Client.RW == "" && !r.Client.EOFWithData {
					return false
				}
				r.Client.RW, r.Client.EOFWithData = "", false
				return true
			}) || changed
			changed = edit(func(p *Plan) bool {
				r := rp(p)
				if r.Client.Timeout == "" {
					return false
				}
				r.Client.Timeout = ""
				return true
			}) || changed
		}
		if !changed {
			break
		}
	}
	return best, &bestViol, runs
}
