package verifsim

import (
	"bytes"
	"fmt"
	"strings"
)

// C04: RPC errors keep their code, message and details across protocols; bare HTTP failures map
// through the published table; out-of-range codes never crash.

var errMsgPool = []string{"", "simple", "with space", "per%cent", "100%", "%zz", "ünïcödé", "日本語 テキスト", "\U0001F600", "quote\"back\\slash", "new\nline", "tab\there",
	"nul\x00byte", "semi;colon,comma", "a=b&c=d", "<html>&amp;", "very " + strings.Repeat("long ", 60), "\x7fdel", "{\"json\":true}", "col:on", "trailing%", "%%", "é%C3%A9"}

func genErrSpec(c *Chooser) *ErrSpec {
	e := &ErrSpec{Code: c.Range(1, 16)}
	if c.Prob(0.7) {
		e.Msg = strings.TrimSpace(errMsgPool[c.Intn(len(errMsgPool))])
	} else {
		e.Msg = strings.TrimSpace(genString(c, &MsgGenOpts{MaxBytes: 40}))
	}
	for i, n := 0, Pick(c, 0, 0, 1, 2, 4); i < n; i++ {
		switch c.Intn(3) {
		case 0:
			e.Details = append(e.Details, Detail{Type: "google.protobuf.StringValue", Value: []byte{0x0a, 0x02, 'o', 'k'}})
		case 1:
			e.Details = append(e.Details, Detail{Type: "acme.v1.Unknown", Value: c.Bytes(c.Intn(20))})
		default:
			e.Details = append(e.Details, Detail{Type: "google.rpc.RetryInfo", Value: []byte{}})
		}
	}
	return e
}

func c04Oracle(p *Plan) *Verdict {
	v := &Verdict{}
	r := Run(p)
	v.absorb(r)
	if r.World != nil {
		v.Trace = r.World.Log
	}
	facts := scenarioFacts(p, 0)
	rc := &p.RPCs[0]
	rp := &rc.Backend.Resp
	pos := "after-msgs"
	switch {
	case rp.BareStatus != 0:
		pos = "bare"
	case rp.GRPCStatusText != "":
		pos = "raw-status"
	case rp.ErrInHeaders && len(rp.Msgs) == 0:
		pos = "headers"
	case len(rp.Msgs) == 0:
		pos = "no-msgs"
	}
	facts["pos"] = pos
	v.Class = fmt.Sprintf("%s>%s/%s/%s/%s", facts["form"], facts["target"], facts["path"], facts["shape"], pos)
	if r.BuildErr != "" {
		return v
	}
	st := r.RPCs[0]
	if st.ServePanic != "" {
		v.violate("panic", facts, "ServeHTTP panicked: %s", st.ServePanic)
		return v
	}
	if r.Deadlock || r.StepCap || st.Outcome == nil || len(st.Backend) != 1 {
		return v
	}
	o := st.Outcome
	b := st.Backend[0]
	if facts["path"] == "passthrough" {
		return v // the transcoder is not in the data path (C13)
	}
	if len(b.Undecodable) > 0 {
		return v // the scripted error was replaced by the backend's own complaint about the request (C01/C02)
	}
	v.Nontrivial = true
	v.probe("pos-" + pos)
	for _, prob := range o.Problems {
		if strings.HasPrefix(prob, "HTTP status") {
			v.violate("http-status-table", facts, "%s", prob)
		}
	}
	switch {
	case rp.BareStatus != 0:
		if facts["path"] == "passthrough" {
			return v
		}
		want := refCodeFromHTTP(rp.BareStatus)
		got := o.effectiveCode()
		f := copyFacts(facts)
		f["status"] = fmt.Sprint(rp.BareStatus)
		// a bare failure whose body happens to be a valid error of the backend's protocol is that error
		if b.Protocol == ProtoConnect && !b.Stream && rp.BareCT == "application/json" {
			if e, prob := connectErrFromJSON(rp.BareBody); prob == "" && e != nil {
				want = e.Code
			}
		}
		if o.Kind == "ok" {
			v.violate("bare-failure-became-success", f, "backend answered bare HTTP %d; client saw success", rp.BareStatus)
		} else if got != want {
			v.violate("bare-status-code", f, "backend answered bare HTTP %d (%s backend); published mapping gives %s, client saw %s", rp.BareStatus, b.Protocol, codeName(want), codeName(got))
		}
	case rp.GRPCStatusText != "":
		if o.Kind == "ok" && rp.GRPCStatusText != "0" {
			// numerically zero spellings are success; anything else must not be
			if n := strings.TrimLeft(rp.GRPCStatusText, "0"); n != "" {
				v.violate("bad-status-became-success", facts, "backend sent grpc-status %q; client saw success", rp.GRPCStatusText)
			}
		}
	case rp.Err != nil:
		want := rp.Err
		if b.Protocol == ProtoREST {
			want = jsonExpressible(want) // all a REST backend can say
		}
		detailsOptional := false
		if rc.Client.Form == FormREST {
			// a REST client is told what JSON can express; if some detail cannot be expressed, the details may go as a whole
			if je := jsonExpressible(want); len(je.Details) != len(want.Details) {
				want, detailsOptional = je, true
			}
		}
		if o.Kind != "error" || o.Err == nil {
			v.violate("error-lost", facts, "backend failed with %s %q; client saw %s", codeName(want.Code), want.Msg, outcomeBrief(o))
			return v
		}
		if o.Err.Code != want.Code {
			v.violate("code-changed", facts, "backend failed with %s; client saw %s", codeName(want.Code), codeName(o.Err.Code))
		}
		if o.Err.Msg != want.Msg {
			v.violate("message-changed", facts, "backend message %q; client saw %q", want.Msg, o.Err.Msg)
		}
		if detailsOptional && len(o.Err.Details) == 0 {
			v.probe("rest-details-dropped")
		} else if len(o.Err.Details) != len(want.Details) {
			v.violate("details-changed", facts, "backend sent %d details; client saw %d", len(want.Details), len(o.Err.Details))
		} else {
			for i := range want.Details {
				if want.Details[i].Type != o.Err.Details[i].Type || !bytes.Equal(want.Details[i].Value, o.Err.Details[i].Value) {
					v.violate("details-changed", facts, "detail %d: sent %s %x; client saw %s %x", i, want.Details[i].Type, want.Details[i].Value, o.Err.Details[i].Type, o.Err.Details[i].Value)
					break
				}
			}
		}
	}
	return v
}

func init() {
	register(&Check{
		ID:    "C04",
		Level: "exploration",
		Rule: "seeded single-RPC scenarios whose backend ends with (a) an RPC error: code 1..16, message from a pool of UTF-8 strings that need percent/JSON/header escaping, 0..4 details of known and unknown types, " +
			"signalled in headers (trailers-only) or after k messages, in the backend's own protocol; (b) a bare HTTP status with arbitrary body; (c) a raw grpc-status text incl. out-of-range numbers; " +
			"oracle = reference error model from the published tables; distinct = (form>target/path/shape/error position, schedule hash); non-trivial = the backend was reached and a response produced",
		Gen: func(c *Chooser, tier string) *Plan {
			p := genScenario(c, ScenOpts{MaxMsgs: 3, MaxBytes: 60, NoErr: true})
			if p == nil {
				return nil
			}
			rp := &p.RPCs[0].Backend.Resp
			_, md := planMethod(p, 0)
			switch c.Intn(10) {
			case 0, 1:
				rp.BareStatus = Pick(c, 400, 401, 403, 404, 405, 408, 409, 418, 429, 500, 501, 502, 503, 504, 599)
				rp.BareBody = Pick(c, []byte(nil), []byte("oops"), []byte(`<html>`))
				rp.BareCT = Pick(c, "", "text/plain", "text/html")
				rp.Msgs, rp.Trailers = nil, nil
			case 2:
				rp.GRPCStatusText = Pick(c, "17", "18", "99", "100", "2147483647", "2147483648", "4294967295", "4294967296", "-1", "abc", "1.5", "0x1", "007", "16", "00")
				rp.Err = &ErrSpec{Code: 2, Msg: "raw"}
				rp.Msgs = nil
			default:
				rp.Err = genErrSpec(c)
				rp.ErrInHeaders = c.Bool()
				if md != nil && md.IsStreamingServer() {
					if len(rp.Msgs) > 0 {
						rp.Msgs = rp.Msgs[:c.Intn(len(rp.Msgs)+1)]
					}
				} else {
					rp.Msgs = nil
				}
			}
			return p
		},
		Directed: func(tier string) []*Plan {
			var ps []*Plan
			for _, txt := range []string{"17", "16"} {
				for _, form := range []string{FormConnectUnary, FormGRPC} {
					rp := RespPlan{TrailerStyle: "prefix", GRPCStatusText: txt, Err: &ErrSpec{Code: 2, Msg: "raw"}}
					ps = append(ps, basePlan(simSvc([]string{ProtoGRPC}, []string{"proto"}, nil), simClient(form, "Unary", "proto", "", smallMsg()), BackendPlan{Resp: rp}))
				}
			}
			for _, stt := range []int{401, 403, 404, 429, 502, 503, 504, 500} {
				rp := RespPlan{BareStatus: stt, BareBody: []byte("nope"), BareCT: "text/plain"}
				ps = append(ps, basePlan(simSvc([]string{ProtoConnect}, []string{"proto"}, nil), simClient(FormGRPC, "Unary", "proto", "", smallMsg()), BackendPlan{Resp: rp}))
			}
			return ps
		},
		Oracle:      c04Oracle,
		Components:  stdComponents,
		Assumptions: []string{"error messages carry no leading/trailing blanks (HTTP field values cannot)", "the 'debug' member of Connect error details is ignored; detail equality is (type name, value bytes)"},
	})
}
