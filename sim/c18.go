package verifsim

import (
	"fmt"
)

// C18: at most one backend dispatch per request, none if rejected; context released; no I/O after return.

var rejectionClasses = []string{"multi-content-type", "unknown-method", "wrong-http-method", "grpc-on-http1", "bidi-on-http1", "unknown-codec", "unknown-compression", "malformed-timeout",
	"bad-leading-message", "stream-type-mismatch", "get-for-side-effects", "content-encoding-on-stream"}

// makeRejected turns a well-formed scenario into one the transcoder must refuse during validation.
func makeRejected(c *Chooser, p *Plan, class string) bool {
	rc := &p.RPCs[0].Client
	svc := &p.Config.Services[0]
	switch class {
	case "multi-content-type":
		if rc.Form == FormConnectGet {
			return false
		}
		rc.ExtraHdrs = append(rc.ExtraHdrs, [2]string{"Content-Type", "application/json"})
	case "unknown-method":
		rc.Path = "/sim.v1.SimService/" + Pick(c, "Nope", "unary", "Unary/", "")
	case "wrong-http-method":
		if rc.Form == FormConnectGet {
			return false
		}
		rc.HTTPMethod = Pick(c, "PUT", "DELETE", "PATCH", "GET", "HEAD", "OPTIONS")
		if rc.HTTPMethod == "GET" && rc.Form == FormConnectUnary {
			return false // would be classified as a Connect GET
		}
	case "grpc-on-http1":
		if rc.Form != FormGRPC {
			return false
		}
		rc.HTTP = 1
	case "bidi-on-http1":
		if rc.Method != "Bidi" || rc.Form == FormGRPC {
			return false
		}
		rc.HTTP = 1
	case "unknown-codec":
		if rc.Form == FormConnectGet {
			return false
		}
		rc.Codec = Pick(c, "xml", "protobuf", "JSON", "text")
		if rc.Form == FormREST {
			// a REST request names its codec only through the content type, and JSON is the only one there is
			rc.Codec = Pick(c, "xml", "protobuf", "text")
			rc.ContentType = "application/" + rc.Codec
		}
		for i := range rc.Msgs {
			rc.Msgs[i].RawPayload = []byte("<x/>")
		}
	case "unknown-compression":
		rc.Compression = Pick(c, "snappy", "br", "zstd", "GZIP")
		for i := range rc.Msgs {
			rc.Msgs[i].Compressed = false
		}
	case "malformed-timeout":
		switch rc.Form {
		case FormGRPC, FormGRPCWeb:
			rc.Timeout = Pick(c, "1x", "S", "-1S", "1.5S", "123456789S", "1 S", "١S")
		case FormREST:
			// X-Server-Timeout: a non-negative decimal number of seconds
			rc.Timeout = Pick(c, "abc", "-1", "5 5", "ten", "1..5", "nan", "-0.5", "1s")
		default:
			rc.Timeout = Pick(c, "abc", "-1", "1.5", "1e3", "5 5", "0x10", "ten")
		}
	case "bad-leading-message":
		if rc.Form == FormConnectGet {
			// a Connect GET that has to be re-issued as a Connect GET in another codec: the message is needed for the request line
			rc.Codec = "json"
			rc.Compression = ""
			rc.Msgs = []MsgSpec{{RawPayload: []byte(Pick(c, "{", "not json", "{\"nope\":1", "[1]"))}}
			svc.Protocols, svc.Codecs = []string{ProtoConnect}, []string{"proto"}
			break
		}
		if rc.Form == FormREST {
			return false
		}
		// an RPC client whose first message does not decode, to a service that only targets REST: the request line of the
		// backend request is built from that message. Zero bytes are a message in the binary codec but not a JSON document.
		if isRestBound(rc.Method) {
			// keep the method
		} else if rc.Form == FormConnectUnary {
			rc.Method = Pick(c, "RestAll", "RestAllNSE")
		} else {
			return false // the bound methods are unary: only forms that carry unary calls
		}
		rc.Compression = ""
		rc.Codec = Pick(c, "json", "json", "proto")
		bad := Pick(c, "", "{", "not json", "[1]")
		if rc.Codec == "proto" {
			bad = Pick(c, "\xff", "\x0a\x05ab", "\x08")
		}
		rc.Msgs = []MsgSpec{{RawPayload: []byte(bad), HasRaw: true}}
		svc.Protocols = []string{ProtoREST}
		if svc.Codecs != nil && !contains(svc.Codecs, "json") {
			svc.Codecs = append(svc.Codecs, "json")
		}
	case "stream-type-mismatch":
		switch rc.Form {
		case FormConnectUnary:
			rc.Method = Pick(c, "ClientStream", "ServerStream", "Bidi")
			rc.HTTP = 2
		case FormConnectStream:
			rc.Method = Pick(c, "Unary", "UnaryNSE")
		default:
			return false
		}
	case "get-for-side-effects":
		if rc.Form != FormConnectGet {
			return false
		}
		rc.Method = Pick(c, "Unary", "UnaryIdem")
	case "content-encoding-on-stream":
		if !enveloped(rc.Form) {
			return false
		}
		rc.ExtraHdrs = append(rc.ExtraHdrs, [2]string{"Content-Encoding", "gzip"})
	}
	return true
}

func c18Oracle(p *Plan) *Verdict {
	v := &Verdict{}
	r := Run(p)
	v.absorb(r)
	if r.World != nil {
		v.Trace = r.World.Log
	}
	class := p.Note
	facts := map[string]string{"class": class, "form": p.RPCs[0].Client.Form}
	v.Class = fmt.Sprintf("%s/%s", class, p.RPCs[0].Client.Form)
	if r.BuildErr != "" {
		return v
	}
	st := r.RPCs[0]
	if st.Rejected != "" {
		return v
	}
	v.Nontrivial = true
	countFaults(v, &p.RPCs[0], st)
	exit := "returned"
	switch {
	case st.ServePanic != "":
		exit = "transcoder-panic"
	case len(st.Backend) > 0 && st.Backend[0].Panicked:
		exit = "handler-panic"
	case len(st.Backend) == 0:
		exit = "rejected"
	case st.Backend[0].Service == "<unknown-handler>":
		exit = "unknown-handler"
	case st.Outcome != nil && st.Outcome.Kind == "ok":
		exit = "success"
	default:
		exit = "error"
	}
	v.probe("exit-" + exit)
	facts["exit"] = exit
	if r.Deadlock || r.StepCap {
		v.Incidental = append(v.Incidental, "hang")
		return v
	}
	if len(st.Backend) > 1 {
		v.violate("double-dispatch", facts, "%d handler invocations for one request", len(st.Backend))
	}
	if isRejectionClass(class) && !stillRejected(p, class) {
		class = "exit-paths" // a shrunk or edited plan that lost its defect is an ordinary request
		facts["class"] = class
	}
	if isRejectionClass(class) {
		v.probe("reject-" + class)
		if len(st.Backend) > 0 {
			v.violate("dispatched-although-rejected", facts, "a request of rejection class %s reached the %s handler (%s %s)", class, st.Backend[0].Service, st.Backend[0].Method, st.Backend[0].Path)
		}
		if st.Outcome != nil && st.Outcome.Kind == "ok" {
			v.violate("rejected-request-succeeded", facts, "a request of rejection class %s was answered with success", class)
		}
	}
	for i, ok := range st.CtxCancelledAtReturn {
		if !ok {
			v.violate("context-not-cancelled", facts, "the context handed to handler invocation %d was still live when ServeHTTP returned", i)
		}
	}
	leaked := p.RPCs[0].Backend.LateIO
	if !leaked {
		if len(st.body.Late) > 0 {
			v.violate("read-after-return", facts, "the request body was touched after ServeHTTP returned: %v", st.body.Late)
		}
		if len(st.rw.Late) > 0 {
			v.violate("write-after-return", facts, "the response writer was touched after ServeHTTP returned: %v", st.rw.Late)
		}
	} else if scenarioFacts(p, 0)["path"] != "passthrough" && exit != "unknown-handler" {
		// a leaked handler goroutine: what it does must not get through the transcoder's wrappers to the real body / writer
		v.probe("leaked-handler-goroutine")
		for _, l := range st.rw.Late {
			if len(l) >= 8 && l[:8] == "rw.write" || len(l) >= 8 && l[:8] == "rw.flush" {
				f := copyFacts(facts)
				v.violate("leaked-write-reaches-writer", f, "a handler goroutine that outlived ServeHTTP wrote through the transcoder's wrapper to the underlying writer: %v", st.rw.Late)
				break
			}
		}
	}
	return v
}

func isRejectionClass(c string) bool {
	for _, x := range rejectionClasses {
		if x == c {
			return true
		}
	}
	return false
}

func init() {
	register(&Check{
		ID:    "C18",
		Level: "exploration",
		Rule: "seeded single-RPC scenarios of two kinds: (a) one of 12 rejection classes applied to a well-formed request of every client form (several Content-Types, unknown method, wrong HTTP method, gRPC or bidi on HTTP/1.1, unknown codec or compression, " +
			"malformed timeout, undecodable leading message needed for the request line, stream-type mismatch, GET for a method with side effects, Content-Encoding on an enveloped stream); (b) every exit path of ServeHTTP reached by fault schedules: " +
			"success, pass-through, unknown handler, set-up error, mid-stream error on either side, handler panic before/after headers/mid-body, client gone, context cancelled, leaked handler goroutine. " +
			"oracle over the event history: dispatch count (0 for rejected, <=1 always), the handler's context is cancelled at the event where ServeHTTP returns, no body/writer call after that event. " +
			"distinct = (class or exit path, client form, schedule hash); non-trivial = the request reached ServeHTTP",
		Gen: func(c *Chooser, tier string) *Plan {
			p := genScenario(c, ScenOpts{MaxMsgs: 3, MaxBytes: 60, Segment: c.Bool()})
			if p == nil {
				return nil
			}
			p.StepCap = 60000
			if c.Bool() {
				class := rejectionClasses[c.Intn(len(rejectionClasses))]
				if !makeRejected(c, p, class) {
					return nil
				}
				p.Note = class
				p.Config.UnknownHandler = false
				return p
			}
			p.Note = "exit-paths"
			bp := &p.RPCs[0].Backend
			switch c.Intn(8) {
			case 0:
				bp.PanicAt = Pick(c, "before-headers", "after-headers", "mid-body")
			case 1:
				genBackendMisbehaviour(c, &bp.Resp)
			case 2:
				genTransportFaults(c, &p.RPCs[0].Client)
			case 3:
				p.Config.UnknownHandler = true
				p.RPCs[0].Client.Path = "/no.such.Service/Method"
			case 4:
				bp.LateIO = true
			case 5:
				bp.Mode = Pick(c, "respond-first", "no-read", "duplex")
				bp.ReadAfter = c.Bool()
			}
			return p
		},
		Oracle:      c18Oracle,
		Components:  stdComponents,
		Assumptions: []string{"the world cancels the request context itself only after it has sampled the handler's context, so a cancelled context at return is the transcoder's doing"},
	})
}

// stillRejected re-derives, from the plan alone, that it carries the defect of its rejection class.
func stillRejected(p *Plan, class string) bool {
	rc := &p.RPCs[0].Client
	_, md := planMethod(p, 0)
	has := func(k string) int {
		n := 0
		for _, kv := range rc.ExtraHdrs {
			if kv[0] == k {
				n++
			}
		}
		return n
	}
	switch class {
	case "multi-content-type":
		return has("Content-Type") > 0
	case "unknown-method":
		return rc.Path != ""
	case "wrong-http-method":
		return rc.HTTPMethod != "" && rc.HTTPMethod != "POST"
	case "grpc-on-http1":
		return rc.Form == FormGRPC && rc.HTTP == 1
	case "bidi-on-http1":
		return rc.Method == "Bidi" && rc.HTTP == 1
	case "unknown-codec":
		return rc.Codec != "proto" && rc.Codec != "json" && rc.Codec != "alt"
	case "unknown-compression":
		return rc.Compression != "" && rc.Compression != "gzip" && rc.Compression != "deflate"
	case "malformed-timeout":
		hdr := "Connect-Timeout-Ms"
		if rc.Form == FormGRPC || rc.Form == FormGRPCWeb {
			hdr = "Grpc-Timeout"
		}
		if rc.Form == FormREST {
			hdr = "X-Server-Timeout"
		}
		_, ok := refTimeoutNanos(hdr, rc.Timeout)
		return rc.Timeout != "" && !ok
	case "bad-leading-message":
		if len(rc.Msgs) != 1 || rc.Msgs[0].RawPayload == nil {
			return false
		}
		if rc.Form == FormConnectGet {
			return true
		}
		svc := &p.Config.Services[0]
		if md == nil || len(svc.Protocols) != 1 || svc.Protocols[0] != ProtoREST || rc.Compression != "" {
			return false
		}
		return refUnmarshal(rc.Codec, rc.Msgs[0].RawPayload, newMessageFor(md.Input())) != nil
	case "stream-type-mismatch":
		if md == nil {
			return false
		}
		streaming := md.IsStreamingClient() || md.IsStreamingServer()
		return (rc.Form == FormConnectUnary && streaming) || (rc.Form == FormConnectStream && !streaming)
	case "get-for-side-effects":
		return rc.Form == FormConnectGet && rc.Method != "UnaryNSE"
	case "content-encoding-on-stream":
		return has("Content-Encoding") > 0
	}
	return false
}
