package verifsim

import (
	"errors"
	"fmt"
	"io"
	"net/http"
	"sort"
	"strings"
)

// ---------------------------------------------------------------------------------------
// SimBody: the client -> transcoder byte pipe.

var errAborted = errors.New("simulation aborted")
var errConnReset = errors.New("sim: connection reset by peer")

type SimBody struct {
	w      *World
	name   string
	chunks [][]byte
	// terminal condition once all chunks are consumed
	ended       bool
	endErr      error // io.EOF for clean end
	eofWithData bool  // deliver io.EOF together with the last bytes (legal io.Reader behaviour, net/http does it)
	closed      bool
	nread       int
	Reads       int
	// set when ServeHTTP has returned; later calls are "late"
	served       *bool
	Late         []string
	CloseCount   int
	ReadAfterEnd int
	// onEOF runs once, when the body's clean end is first reported to a reader: net/http fills the values of announced
	// request trailers into Request.Trailer at that moment, not before
	onEOF func()
}

func (b *SimBody) reportedEOF() {
	if b.onEOF != nil {
		f := b.onEOF
		b.onEOF = nil
		f()
	}
}

func (b *SimBody) deliver(p []byte) {
	if len(p) == 0 {
		return
	}
	b.chunks = append(b.chunks, p)
}
func (b *SimBody) end(err error) {
	b.ended = true
	b.endErr = err
}

func (b *SimBody) Read(p []byte) (int, error) {
	w := b.w
	if b.served != nil && *b.served {
		b.Late = append(b.Late, fmt.Sprintf("body.read@%d", w.seq+1))
	}
	w.Yield(b.name + ".read")
	if b.closed {
		w.Logf("body.read", "closed")
		return 0, http.ErrBodyReadAfterClose
	}
	if len(p) == 0 {
		return 0, nil
	}
	if !w.Block(b.name+".read", func() bool { return len(b.chunks) > 0 || b.ended || b.closed }) {
		return 0, errAborted
	}
	if b.closed {
		return 0, http.ErrBodyReadAfterClose
	}
	b.Reads++
	if len(b.chunks) > 0 {
		n := copy(p, b.chunks[0])
		if n == len(b.chunks[0]) {
			b.chunks = b.chunks[1:]
		} else {
			b.chunks[0] = b.chunks[0][n:]
		}
		b.nread += n
		var err error
		if len(b.chunks) == 0 && b.ended && b.eofWithData && b.endErr == io.EOF {
			err = io.EOF
			b.reportedEOF()
		}
		w.Logf("body.read", "asked=%d got=%d err=%v", len(p), n, err)
		return n, err
	}
	b.ReadAfterEnd++
	if b.endErr == io.EOF {
		b.reportedEOF()
	}
	w.Logf("body.read", "asked=%d got=0 err=%v", len(p), b.endErr)
	return 0, b.endErr
}

func (b *SimBody) Close() error {
	if b.served != nil && *b.served {
		b.Late = append(b.Late, fmt.Sprintf("body.close@%d", b.w.seq+1))
	}
	b.CloseCount++
	b.closed = true
	b.w.Logf("body.close", "")
	return nil
}

// ---------------------------------------------------------------------------------------
// SimRW: the transcoder -> client pipe; a model of the documented ResponseWriter contract.

type RWEvent struct {
	Seq    uint64
	Kind   string // header | write | flush | superfluous-header | write-error
	N      int
	Status int
}

type simRW struct {
	w    *World
	name string
	hdr  http.Header

	wroteHeader bool
	Status      int
	Snap        http.Header // header map snapshot at WriteHeader
	declaredCL  int64
	bodiless    bool

	pending    []byte
	Visible    []byte       // what the client can see
	middleware *rwBuffering // the "buffering" flavour: drained when the handler returns
	Written    int64
	Events     []RWEvent
	Flushes    int

	failAfter int64 // -1: never; otherwise Write fails once Written >= failAfter
	finished  bool
	served    *bool
	Late      []string

	Problems              []string // contract violations (M-http)
	Superfluous           int
	Trailers              http.Header
	LostHeaderKeys        []string
	headerWritesVisibleAt uint64
	firstByteVisibleSeq   uint64
}

func newSimRW(w *World, name string) *simRW {
	return &simRW{w: w, name: name, hdr: http.Header{}, declaredCL: -1, failAfter: -1}
}

func (r *simRW) late(op string) {
	if r.served != nil && *r.served {
		r.Late = append(r.Late, fmt.Sprintf("%s@%d", op, r.w.seq+1))
	}
}

func (r *simRW) Header() http.Header {
	r.late("rw.header")
	return r.hdr
}

func (r *simRW) WriteHeader(status int) {
	r.late("rw.writeheader")
	r.w.Yield(r.name + ".writeheader")
	if r.wroteHeader {
		r.Superfluous++
		r.Events = append(r.Events, RWEvent{Seq: r.w.Logf("rw.superfluous-header", "%d", status), Kind: "superfluous-header", Status: status})
		return
	}
	if status < 100 || status > 999 {
		// net/http panics here
		r.w.Logf("rw.writeheader", "invalid %d", status)
		panic(fmt.Sprintf("invalid WriteHeader code %v", status))
	}
	if status >= 100 && status < 200 && status != 101 {
		// informational: not final. Record and ignore.
		r.Events = append(r.Events, RWEvent{Seq: r.w.Logf("rw.informational", "%d", status), Kind: "informational", Status: status})
		return
	}
	r.wroteHeader = true
	r.Status = status
	r.Snap = r.hdr.Clone()
	r.bodiless = status == 204 || status == 304
	if cl := r.Snap.Get("Content-Length"); cl != "" {
		var n int64 = -1
		ok := true
		if len(cl) > 18 {
			ok = false
		}
		for _, ch := range cl {
			if ch < '0' || ch > '9' {
				ok = false
			}
		}
		if ok {
			n = 0
			for _, ch := range cl {
				n = n*10 + int64(ch-'0')
			}
			r.declaredCL = n
		} else {
			// net/http drops an unparsable Content-Length
			r.Snap.Del("Content-Length")
		}
	}
	r.Events = append(r.Events, RWEvent{Seq: r.w.Logf("rw.writeheader", "%d %s", status, canonHeader(r.Snap)), Kind: "header", Status: status})
}

func (r *simRW) Write(p []byte) (int, error) {
	r.late("rw.write")
	if !r.wroteHeader {
		r.WriteHeader(200)
	} else {
		r.w.Yield(r.name + ".write")
	}
	if r.w.aborting {
		return 0, errAborted
	}
	if r.failAfter >= 0 && r.Written >= r.failAfter {
		r.Events = append(r.Events, RWEvent{Seq: r.w.Logf("rw.write-error", "n=%d", len(p)), Kind: "write-error", N: len(p)})
		return 0, errConnReset
	}
	if r.bodiless && len(p) > 0 {
		r.w.Logf("rw.write", "bodiless status %d n=%d", r.Status, len(p))
		return 0, http.ErrBodyNotAllowed
	}
	if r.declaredCL >= 0 && r.Written+int64(len(p)) > r.declaredCL {
		r.Problems = append(r.Problems, fmt.Sprintf("wrote more than declared Content-Length %d", r.declaredCL))
		r.w.Logf("rw.write", "beyond content-length n=%d", len(p))
		// net/http writes what fits and returns ErrContentLength
		fit := r.declaredCL - r.Written
		if fit > 0 {
			r.pending = append(r.pending, p[:fit]...)
			r.Written += fit
		}
		return int(fit), http.ErrContentLength
	}
	n := len(p)
	if r.failAfter >= 0 && r.Written+int64(n) > r.failAfter {
		n = int(r.failAfter - r.Written)
	}
	r.pending = append(r.pending, p[:n]...)
	r.Written += int64(n)
	r.Events = append(r.Events, RWEvent{Seq: r.w.Logf("rw.write", "n=%d", n), Kind: "write", N: n})
	if n < len(p) {
		return n, errConnReset
	}
	return n, nil
}

func (r *simRW) flush() {
	r.late("rw.flush")
	if !r.wroteHeader {
		r.WriteHeader(200)
	} else {
		r.w.Yield(r.name + ".flush")
	}
	r.Flushes++
	if len(r.pending) > 0 {
		r.Visible = append(r.Visible, r.pending...)
		r.pending = r.pending[:0]
	}
	seq := r.w.Logf("rw.flush", "visible=%d", len(r.Visible))
	if r.headerWritesVisibleAt == 0 {
		r.headerWritesVisibleAt = seq
	}
	r.Events = append(r.Events, RWEvent{Seq: seq, Kind: "flush", N: len(r.Visible)})
}

// finish is called when ServeHTTP returns: everything pending becomes visible and trailers are computed.
func (r *simRW) finish() {
	if !r.wroteHeader {
		// net/http sends 200 with empty body
		r.wroteHeader = true
		r.Status = 200
		r.Snap = r.hdr.Clone()
		r.Events = append(r.Events, RWEvent{Seq: r.w.Logf("rw.implicit-header", "200"), Kind: "header", Status: 200})
	}
	r.Visible = append(r.Visible, r.pending...)
	r.pending = nil
	r.finished = true
	if r.headerWritesVisibleAt == 0 {
		r.headerWritesVisibleAt = r.w.seq
	}
	if r.declaredCL >= 0 && r.Written < r.declaredCL && r.failAfter < 0 && !r.bodiless {
		r.Problems = append(r.Problems, fmt.Sprintf("wrote %d bytes, fewer than declared Content-Length %d", r.Written, r.declaredCL))
	}
	// trailers: keys announced in Trailer at header time, plus TrailerPrefix keys
	r.Trailers = http.Header{}
	announced := map[string]bool{}
	for _, v := range r.Snap.Values("Trailer") {
		for _, k := range strings.Split(v, ",") {
			k = http.CanonicalHeaderKey(strings.TrimSpace(k))
			if k != "" {
				announced[k] = true
			}
		}
	}
	keys := make([]string, 0, len(r.hdr))
	for k := range r.hdr {
		keys = append(keys, k)
	}
	sort.Strings(keys)
	for _, k := range keys {
		vals := r.hdr[k]
		if strings.HasPrefix(k, http.TrailerPrefix) {
			name := http.CanonicalHeaderKey(strings.TrimPrefix(k, http.TrailerPrefix))
			r.Trailers[name] = append(r.Trailers[name], vals...)
			continue
		}
		if announced[k] {
			// only values that differ from the snapshot count as trailer (net/http sends the final value)
			r.Trailers[k] = append(r.Trailers[k], vals...)
			continue
		}
		if !equalStrings(r.Snap[k], vals) {
			r.LostHeaderKeys = append(r.LostHeaderKeys, k)
		}
	}
	r.w.Logf("rw.finish", "status=%d body=%d trailers=%s", r.Status, len(r.Visible), canonHeader(r.Trailers))
}

func equalStrings(a, b []string) bool {
	if len(a) != len(b) {
		return false
	}
	for i := range a {
		if a[i] != b[i] {
			return false
		}
	}
	return true
}

// The four Go types a transcoder may be handed.
type rwFlusher struct{ *simRW }

func (r rwFlusher) Flush() { r.simRW.flush() }

type rwFlushErr struct{ *simRW }

func (r rwFlushErr) FlushError() error { r.simRW.flush(); return nil }

type rwWrapped struct {
	http.ResponseWriter
	inner http.ResponseWriter
}

func (r rwWrapped) Unwrap() http.ResponseWriter { return r.inner }

// rwBuffering is a middleware between the server and the transcoder that holds the body back (a compressing or
// measuring wrapper): what is written to it reaches the connection when Flush is called on *it*, or when the handler
// returns. It also offers Unwrap, as http.ResponseController expects of wrappers.
type rwBuffering struct {
	rw          *simRW
	buf         []byte
	wroteHeader bool
}

func (r *rwBuffering) Header() http.Header { return r.rw.Header() }
func (r *rwBuffering) WriteHeader(s int)   { r.wroteHeader = true; r.rw.WriteHeader(s) }
func (r *rwBuffering) Write(p []byte) (int, error) {
	if !r.wroteHeader {
		r.WriteHeader(http.StatusOK) // the head is not held back: only body bytes are
	}
	r.buf = append(r.buf, p...)
	return len(p), nil
}
func (r *rwBuffering) drain() {
	if len(r.buf) > 0 {
		b := r.buf
		r.buf = nil
		_, _ = r.rw.Write(b)
	}
}
func (r *rwBuffering) Flush()                      { r.drain(); r.rw.flush() }
func (r *rwBuffering) Unwrap() http.ResponseWriter { return rwFlusher{r.rw} }

type rwNoFlush struct{ *simRW }

type rwPlain struct{ rw *simRW }              // no Flusher at all
func (r rwPlain) Header() http.Header         { return r.rw.Header() }
func (r rwPlain) WriteHeader(s int)           { r.rw.WriteHeader(s) }
func (r rwPlain) Write(p []byte) (int, error) { return r.rw.Write(p) }

func (r *simRW) asResponseWriter(variant string) http.ResponseWriter {
	switch variant {
	case "flusherr":
		return rwFlushErr{r}
	case "unwrap":
		return rwWrapped{ResponseWriter: rwPlain{r}, inner: rwFlusher{r}}
	case "noflush":
		return rwPlain{r}
	case "buffering":
		r.middleware = &rwBuffering{rw: r}
		return r.middleware
	default:
		return rwFlusher{r}
	}
}

// ---------------------------------------------------------------------------------------
// helpers

func canonHeader(h http.Header) string {
	keys := make([]string, 0, len(h))
	for k := range h {
		keys = append(keys, k)
	}
	sort.Strings(keys)
	var sb strings.Builder
	for _, k := range keys {
		vals := h[k]
		if k == "Trailer" || k == "Allow" {
			// order of values in these depends on Go map iteration inside vanguard
			vals = splitSorted(vals)
		}
		sb.WriteString(k)
		sb.WriteByte('=')
		sb.WriteString(strings.Join(vals, "|"))
		sb.WriteByte(';')
	}
	return sb.String()
}

func splitSorted(vals []string) []string {
	var out []string
	for _, v := range vals {
		for _, p := range strings.Split(v, ",") {
			p = strings.TrimSpace(p)
			if p != "" {
				out = append(out, p)
			}
		}
	}
	sort.Strings(out)
	return out
}

func digest(p []byte) string {
	if len(p) <= 12 {
		return fmt.Sprintf("%x", p)
	}
	return fmt.Sprintf("%x..%x", p[:6], p[len(p)-4:])
}
