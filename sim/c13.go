package verifsim

import (
	"bytes"
	"fmt"
	"net/http"
	"strings"
)

// C13: pass-through and unknown-endpoint requests are forwarded untouched, in both directions.

func c13Oracle(p *Plan) *Verdict {
	v := &Verdict{}
	r := Run(p)
	v.absorb(r)
	if r.World != nil {
		v.Trace = r.World.Log
	}
	kind := p.Note
	rc := &p.RPCs[0]
	facts := map[string]string{"kind": kind, "form": rc.Client.Form}
	v.Class = fmt.Sprintf("%s/%s", kind, rc.Client.Form)
	if r.BuildErr != "" {
		return v
	}
	st := r.RPCs[0]
	if st.Rejected != "" {
		return v
	}
	if st.ServePanic != "" {
		v.violate("panic", facts, "ServeHTTP panicked: %s at %s", st.ServePanic, st.ServePanicStack)
		return v
	}
	if r.Deadlock || r.StepCap {
		v.violate("hang", facts, "run did not terminate: %v", r.World.DeadlockAt)
		return v
	}
	if len(st.Backend) != 1 {
		// the transcoder answered itself: legitimate only if validation that precedes the pass-through decision refused the request
		v.probe("not-forwarded")
		return v
	}
	b := st.Backend[0]
	if kind == "unknown" && b.Service != "<unknown-handler>" {
		v.probe("matched-an-endpoint")
		return v
	}
	v.Nontrivial = true
	countFaults(v, rc, st)
	o := &st.orig
	diff := func(what string, want, got any) {
		if fmt.Sprint(want) != fmt.Sprint(got) {
			f := copyFacts(facts)
			f["field"] = what
			v.violate("request-changed", f, "%s: client sent %q, handler saw %q", what, fmt.Sprint(want), fmt.Sprint(got))
		}
	}
	diff("method", o.Method, b.Method)
	diff("url.path", o.Path, b.Path)
	diff("url.rawpath", o.RawPath, b.RawPath)
	diff("url.rawquery", o.RawQuery, b.RawQuery)
	diff("proto", o.Proto, b.Proto)
	diff("content-length", o.ContentLength, b.ContentLength)
	diff("host", o.Host, b.Host)
	diff("request-uri", o.RequestURI, b.RequestURI)
	diff("transfer-encoding", o.TransferEncoding, b.TransferEncoding)
	if d := diffMeta(o.Header, b.Header); d != "" {
		f := copyFacts(facts)
		f["field"] = "header"
		v.violate("request-changed", f, "headers: %s", d)
	}
	// body bytes and the error a faulted body ends with
	want, clean, _ := effectiveRequestBody(&p.Config, rc)
	if !bytes.Equal(want, b.Body) {
		f := copyFacts(facts)
		f["field"] = "body"
		v.violate("request-changed", f, "body: client sent %d bytes %s, handler read %d bytes %s", len(want), digest(want), len(b.Body), digest(b.Body))
	}
	if clean != (b.ReadErr == "") {
		f := copyFacts(facts)
		f["field"] = "body-error"
		v.violate("request-changed", f, "body end: client ended cleanly=%v, handler saw error %q", clean, b.ReadErr)
	}
	if len(rc.Client.ReqTrailers) > 0 && clean && b.ReadErr == "" && len(want) > 0 {
		// request trailers: the handler read the body to its clean end, so the values the client sent after it are there
		v.probe("request-trailers")
		if d := diffMeta(metaMultimap(rc.Client.ReqTrailers), b.ReqTrailers); d != "" {
			f := copyFacts(facts)
			f["field"] = "trailer"
			v.violate("request-changed", f, "request trailers after the body was read to its end: %s", d)
		}
	}
	// response direction
	if rc.Client.WriterFailAfter > 0 || rc.Client.CancelAtStep > 0 {
		return v
	}
	rp := &rc.Backend.Resp
	wantStatus := rp.RawStatus
	if wantStatus == 0 {
		wantStatus = 200
	}
	if st.rw.Status != wantStatus {
		v.violate("response-changed", facts, "status: handler wrote %d, client saw %d", wantStatus, st.rw.Status)
	}
	wantHdr := http.Header{}
	for _, kv := range rp.Headers {
		wantHdr.Add(kv[0], kv[1])
	}
	for _, kv := range rp.ExtraHdrs {
		wantHdr.Add(kv[0], kv[1])
	}
	gotHdr := st.rw.Snap.Clone()
	if rp.TrailerStyle == "announce" {
		gotHdr.Del("Trailer")
	}
	if d := diffMeta(wantHdr, gotHdr); d != "" {
		v.violate("response-changed", facts, "headers: %s", d)
	}
	if !bytes.Equal(rp.RawBody, st.rw.Visible) && !(len(rp.RawBody) == 0 && len(st.rw.Visible) == 0) {
		v.violate("response-changed", facts, "body: handler wrote %s, client saw %s", digest(rp.RawBody), digest(st.rw.Visible))
	}
	wantTr := http.Header{}
	for _, kv := range rp.Trailers {
		wantTr.Add(kv[0], kv[1])
	}
	if d := diffMeta(wantTr, st.rw.Trailers); d != "" {
		v.violate("response-changed", facts, "trailers: %s", d)
	}
	if b.Flushes != st.rw.Flushes {
		v.violate("flush-not-forwarded", facts, "handler flushed %d times, the client's writer saw %d flushes", b.Flushes, st.rw.Flushes)
	}
	return v
}

func init() {
	register(&Check{
		ID:    "C13",
		Level: "exploration",
		Rule: "two seeded classes: (pass-through) a request whose protocol, codec and compression the service accepts, with arbitrary extra headers, other legal spellings of the content type, query string, declared content length and body bytes that need not be valid in the protocol, GETs also under small URL limits; " +
			"(unknown) a request for a path no endpoint matches, or a well-formed RPC for a method without REST binding on a REST-only service, with the unknown-endpoint handler installed; the downstream handler answers with an arbitrary status, header set, body, trailers and flush pattern; " +
			"all delivery segmentations, read sizes, body cuts and connection errors. oracle: method, URL (path, raw path, raw query), protocol version, host, request-URI, header multimap, ContentLength, body bytes and body error at the handler equal what the client sent, and so do request trailers once the handler has read the body to its end (a quarter of the runs send some; their values arrive after the body, as with net/http); " +
			"status, headers, body, trailers and flush count at the client equal what the handler wrote. distinct = (class, client form, schedule hash); non-trivial = the downstream handler was invoked",
		Gen: func(c *Chooser, tier string) *Plan {
			kind := Pick(c, "passthrough", "passthrough", "unknown")
			var p *Plan
			if kind == "passthrough" {
				p = genScenario(c, ScenOpts{MaxMsgs: 3, MaxBytes: 80, Segment: true, NoErr: true})
				if p == nil {
					return nil
				}
				rc := &p.RPCs[0].Client
				svc := &p.Config.Services[0]
				// make the triple acceptable
				proto := formProtocol(rc.Form)
				if !contains(svc.protocols(), proto) {
					svc.Protocols = append(append([]string{}, svc.protocols()...), proto)
				}
				if !contains(svc.codecs(), rc.Codec) {
					svc.Codecs = append(append([]string{}, svc.codecs()...), rc.Codec)
				}
				if rc.Compression != "" && !contains(svc.compressions(), rc.Compression) {
					svc.Compression, svc.NoCompression = append(append([]string{}, svc.compressions()...), rc.Compression), false
				}
				if rc.Form == FormConnectGet && c.Bool() {
					// a GET that is acceptable as it stands is forwarded as it stands, whatever length of URL the transcoder
					// would allow itself when it has to build a GET
					svc.MaxGetURL = uint32(Pick(c, 1, 16, 64, 200))
				}
				if rc.Form == FormREST && c.Prob(0.3) {
					// the same media type in another legal spelling: forwarded as the client spelled it
					rc.ContentType = Pick(c, "Application/JSON", "application/json;charset=UTF-8", "application/json; charset=utf-8", "APPLICATION/JSON ; Charset=\"utf-8\"")
				}
				if c.Prob(0.4) && rc.Form != FormConnectGet {
					rc.RawBody, rc.HasRawBody = c.Bytes(c.Intn(60)), true // bytes that are not valid in the protocol
				}
				if rc.Compression == "" && rc.Form != FormConnectGet && c.Prob(0.2) {
					// "no compression", spelled out: still nothing to convert
					hdr := "Content-Encoding"
					switch rc.Form {
					case FormGRPC, FormGRPCWeb:
						hdr = "Grpc-Encoding"
					case FormConnectStream:
						hdr = "Connect-Content-Encoding"
					}
					rc.ExtraHdrs = append(rc.ExtraHdrs, [2]string{hdr, "identity"})
				}
				if c.Prob(0.3) && rc.Form != FormConnectGet {
					rc.RawQuery = Pick(c, "a=b", "x=%2F&y", "", "q")
					if rc.RawQuery != "" {
						rc.Path = getSchema("sim").methodPath(rc.Method) + "?" + rc.RawQuery
					}
				}
			} else {
				cfg := ConfigPlan{Services: []ServicePlan{genService(c, "sim"), {Schema: "library", MaxMsg: 1 << 20}}, UnknownHandler: true}
				cp := genHostileClient(c)
				cp.Path = Pick(c, "/", "/nothing/here", "/sim.v1.SimService/Nope", "/v1/unknown", "/v1/shelves/1/books/2/extra", "/a%2Fb", "/x:y", "/sim.v1.SimService")
				cp.ExtraHdrs = nil
				if c.Bool() {
					cp.ExtraHdrs = [][2]string{{"Content-Type", Pick(c, "application/json", "application/grpc", "text/plain", "application/connect+proto", "Application/JSON", "multipart/form-data; boundary=AbC123xYz", "text/plain;charset=UTF-8", "Image/PNG")}}
				}
				p = &Plan{Config: cfg, RPCs: []RPCPlan{{Client: cp}}, Sched: genSched(c), Pool: genPool(c)}
				if c.Prob(0.35) {
					// "not found" decided late: the path names a real method, the client's request is a well-formed RPC, but the
					// service only targets REST and the method has no binding - by then the request head has been worked on
					if r := genRPC(c, ScenOpts{MaxMsgs: 2, MaxBytes: 40, NoErr: true, Segment: true, Methods: []string{"Unary", "UnaryNSE", "ClientStream", "ServerStream", "Bidi"}}); r != nil {
						p.Config.Services[0].Protocols = []string{ProtoREST}
						p.RPCs[0].Client = r.Client
					}
				}
			}
			p.Note = kind
			rc := &p.RPCs[0].Client
			rc.Headers = append(rc.Headers, genMetaSet(c, c.Intn(4))...)
			if c.Prob(0.3) {
				rc.DeclareCL = Pick(c, "exact", "none")
			}
			if c.Prob(0.2) {
				rc.Faults = []Fault{{Kind: Pick(c, "cut-eof", "cut-err"), At: c.Intn(30)}}
			}
			if c.Prob(0.25) && len(rc.Faults) == 0 {
				// request trailers (any client may send them; their values exist only once the body has been read)
				rc.ReqTrailers = [][2]string{{"X-Body-Checksum", "crc32:" + string(rune('a'+c.Intn(26)))}}
				if c.Bool() {
					rc.ReqTrailers = append(rc.ReqTrailers, [2]string{Pick(c, "X-Body-Checksum", "X-Signature"), "v2"})
				}
			}
			p.RPCs[0].Passthrough = true
			bp := &p.RPCs[0].Backend
			bp.ReadSizes = genSegSizes(c)
			bp.Resp = RespPlan{RawStatus: Pick(c, 200, 200, 201, 400, 404, 418, 500, 503), Headers: genMetaSet(c, c.Intn(4)), TrailerStyle: Pick(c, "announce", "prefix"),
				RawBody: c.Bytes(c.Intn(80)), WriteMode: Pick(c, "", "sizes"), WriteSizes: genSegSizes(c), FlushEvery: Pick(c, 0, 1, 2)}
			if bp.Resp.WriteMode == "sizes" && bp.Resp.WriteSizes == nil {
				bp.Resp.WriteSizes = []int{3}
			}
			hk := metaMultimap(bp.Resp.Headers)
			for _, kv := range genMetaSet(c, c.Intn(3)) {
				if _, dup := hk[http.CanonicalHeaderKey(kv[0])]; !dup {
					bp.Resp.Trailers = append(bp.Resp.Trailers, kv)
				}
			}
			if c.Prob(0.5) {
				bp.Resp.ExtraHdrs = append(bp.Resp.ExtraHdrs, Pick(c, [2]string{"Content-Type", "application/grpc+proto"}, [2]string{"Content-Type", "text/plain"}, [2]string{"Grpc-Status", "7"},
					[2]string{"Content-Encoding", "gzip"}, [2]string{"Connect-Content-Encoding", "br"}, [2]string{"Trailer-X", "y"}))
			}
			return p
		},
		Oracle:     c13Oracle,
		Components: stdComponents,
		Assumptions: []string{"requests that validation refuses before the pass-through decision (unknown codec, malformed timeout, ...) are answered by the transcoder itself and are not counted",
			"the order of values under one header name is content; the order of names is not"},
	})
}

var _ = strings.TrimSpace
