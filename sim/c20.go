package verifsim

import (
	"fmt"
)

// C20: behaviour depends on the schema's content, not on how it was loaded.

var c20Vias = []string{"schema", "fresh", "private", "vendored", "noparent", "notfound", "fresh-notfound", "hide-requests", "hide-responses"}

var libraryUnary = []string{"GetBook", "CreateBook", "ListBooks", "CreateShelf", "ListShelves", "UpdateBook", "DeleteBook", "SearchBooks", "MoveBooks", "CheckoutBooks", "ReturnBooks", "GetCheckout", "ListCheckouts"}

func c20Oracle(p *Plan) *Verdict {
	v := &Verdict{}
	base := Run(p)
	v.absorb(base)
	if base.World != nil {
		v.Trace = base.World.Log
	}
	rc := &p.RPCs[0]
	facts := map[string]string{"form": rc.Client.Form, "kind": p.Note}
	v.Class = fmt.Sprintf("%s/%s/%s.%s", p.Note, rc.Client.Form, rc.Client.Service, rc.Client.Method)
	if base.BuildErr != "" {
		v.Incidental = append(v.Incidental, "base build: "+base.BuildErr)
		return v
	}
	st := base.RPCs[0]
	if st.Rejected != "" {
		return v
	}
	v.Nontrivial = true
	want := probeView(st)
	vias := c20Vias
	if p.Note == "chain" {
		vias = []string{"default-resolver"} // the reference is the same descriptor with a resolver built from all of its files
	}
	for _, via := range vias {
		q := p.clone()
		for i := range q.Config.Services {
			q.Config.Services[i].Via = via
		}
		qr := Run(q)
		v.absorb(qr)
		f := copyFacts(facts)
		f["via"] = via
		if qr.BuildErr != "" {
			v.violate("provenance-rejected", f, "the same schema supplied via %q is rejected by NewTranscoder: %s", via, qr.BuildErr)
			continue
		}
		v.probe("via-" + via)
		got := probeView(qr.RPCs[0])
		if got != want {
			v.violate("provenance-changes-behaviour", f, "supplying the schema via %q instead of by name changes the outcome:\n by name: %s\n %s: %s", via, truncate(want, 1200), via, truncate(got, 1200))
		}
	}
	return v
}

func init() {
	register(&Check{
		ID:    "C20",
		Level: "exploration",
		Rule: "the same Plan and schedule are executed against worlds that differ only in how the schema reached NewTranscoder: by name from generated code (reference); NewServiceWithSchema with the generated descriptor; a fresh protodesc file built from the serialised descriptor; " +
			"a private registry rebuilt file by file with google.api.http parsed as a dynamic extension; the same files as a vendored tree (google/api/*.proto registered under third_party/googleapis/, imports renamed); a service descriptor without parent file; a resolver that answers NotFound for every type (alone and on top of the fresh file), and resolvers that know every type except the request-only (response-only) ones. " +
			"and a schema that exists only as run-time built descriptors with a three-file import chain, served with a resolver built from all files (reference) and with the resolver left to the transcoder. scenario corpus: REST and RPC requests against two services defined in one run-time built file and registered in either order; REST requests rendered by the reference encoder for the 13 bound LibraryService methods (routing, binding, response_body), RPC requests in every unary client form incl. Connect GET, scripted backend errors. " +
			"oracle: equal canonical outcome at the client and equal view at the backend across all variants. distinct = (scenario kind, client form, method, schedule hash); non-trivial = the request reached ServeHTTP. " +
			"vanguardgrpc.NewTranscoder is not simulated (grpc-go's handler transport runs its own goroutines): not covered by this check",
		Gen: func(c *Chooser, tier string) *Plan {
			if c.Prob(0.1) {
				return genChainPlan(c)
			}
			if c.Prob(0.3) {
				// two services that are defined in one file (the run-time built sim.proto), registered in either order: each
				// provenance builds its own descriptor instance per service, so "same file" is a matter of content, not identity
				a := ServicePlan{Schema: "sim", MaxMsg: 1 << 20}
				b := ServicePlan{Schema: "sim2", MaxMsg: 1 << 20, Protocols: genSubset(c, allTargetProtocols, true), Codecs: genSubset(c, []string{"proto", "json"}, true)}
				cfg := ConfigPlan{Services: []ServicePlan{a, b}}
				if c.Bool() {
					cfg.Services = []ServicePlan{b, a}
				}
				var r *RPCPlan
				if c.Prob(0.7) {
					r = genRESTClientRPC(c, &cfg, restMethods[c.Intn(11)])
				} else {
					r = genRPC(c, ScenOpts{MaxMsgs: 2, MaxBytes: 40, NoErr: true})
				}
				if r == nil {
					return nil
				}
				p := &Plan{Config: cfg, RPCs: []RPCPlan{*r}, Sched: SchedPlan{Policy: "seq"}, Pool: PoolPlan{Policy: "lifo"}}
				p.Note = "two-services-one-file"
				return p
			}
			svc := ServicePlan{Schema: "library", Via: "name", MaxMsg: 1 << 20, Protocols: genSubset(c, allTargetProtocols, true), Codecs: genSubset(c, []string{"proto", "json"}, true)}
			cfg := ConfigPlan{Services: []ServicePlan{svc}}
			method := libraryUnary[c.Intn(len(libraryUnary))]
			sch := getSchema("library")
			md := sch.method(method)
			mo := &MsgGenOpts{MaxDepth: 2, MaxBytes: 24, SingleEntry: true}
			msg := genMessage(c, md.Input(), mo, 0)
			resp := genMessage(c, md.Output(), mo, 0)
			bp := BackendPlan{Resp: RespPlan{Msgs: []MsgSpec{{Data: canonBytes(resp)}}, TrailerStyle: "prefix"}}
			kind := Pick(c, "rest", "rest", "rpc", "rpc", "rpc-error")
			var cp ClientPlan
			switch kind {
			case "rest":
				b := bindingOf(&cfg, "library", method)
				if b == nil {
					return nil
				}
				sanitizeForBinding(c, b, msg.ProtoReflect())
				req, ok := refEncodeRequest(b, msg, c.Bool())
				if !ok {
					return nil
				}
				cp = ClientPlan{Form: FormREST, HTTP: 2, Service: "library", Method: method, Codec: "json", HTTPMethod: req.Method, Path: req.Path, RawQuery: req.RawQuery}
				if req.HasBody {
					cp.RestJSON, cp.ContentType = req.Body, req.ContentType
					if cp.RestJSON == nil {
						cp.RestJSON = []byte{}
					}
				}
				if c.Prob(0.15) {
					cp.RawQuery += "&page_size=abc"
				}
			default:
				form := Pick(c, FormConnectUnary, FormGRPC, FormGRPCWeb, FormConnectGet)
				cp = ClientPlan{Form: form, HTTP: 2, Service: "library", Method: method, Codec: Pick(c, "proto", "json"), Compression: Pick(c, "", "gzip"), Accept: []string{"gzip"},
					Msgs: []MsgSpec{{Data: canonBytes(msg), Compressed: true}}}
				if kind == "rpc-error" {
					bp.Resp.Msgs = nil
					bp.Resp.Err = genErrSpec(c)
				}
			}
			p := &Plan{Config: cfg, RPCs: []RPCPlan{{Client: cp, Backend: bp}}, Sched: SchedPlan{Policy: "seq"}, Pool: PoolPlan{Policy: "lifo"}}
			p.Note = kind
			return p
		},
		Oracle:       c20Oracle,
		UnstableHash: true,
		Components:   stdComponents,
		Assumptions:  []string{"dynamic messages marshal their fields in Go map order, so byte-level event logs of the variants are not compared, only decoded outcomes", "services wrapped from a grpc.Server registry (vanguardgrpc) are out of reach of the scheduler and are not covered"},
	})
}

// genChainPlan: a schema that exists only as descriptors loaded at run time (no Go types, no global registration), whose
// service file reaches one of its types only through an import of an import. A message carries that type by name
// (google.protobuf.Any) and as a nested field, and has to be re-encoded between JSON and the binary codec.
func genChainPlan(c *Chooser) *Plan {
	jsonSide := Pick(c, "client", "backend")
	svc := ServicePlan{Schema: "chain", MaxMsg: 1 << 20, Protocols: genSubset(c, allTargetProtocols, true)}
	val := Pick(c, "v", "", "two words", "\u00fc")
	detail := append([]byte{0x0a, byte(len(val))}, val...) // chain.c.Detail{s: val}
	if val == "" {
		detail = nil
	}
	anyMsg := append([]byte{0x0a, 37}, "type.googleapis.com/chain.c.Detail"...)
	anyMsg[1] = byte(len("type.googleapis.com/chain.c.Detail"))
	if len(detail) > 0 {
		anyMsg = append(append(anyMsg, 0x12, byte(len(detail))), detail...)
	}
	mid := append([]byte{0x0a, byte(len(detail))}, detail...) // chain.b.Mid{d: Detail}
	req := append([]byte{0x0a, byte(len(anyMsg))}, anyMsg...)
	req = append(append(req, 0x12, byte(len(mid))), mid...)
	reqJSON := fmt.Sprintf(`{"payload":{"@type":"type.googleapis.com/chain.c.Detail","s":%q},"mid":{"d":{"s":%q}}}`, val, val)
	if val == "" {
		reqJSON = `{"payload":{"@type":"type.googleapis.com/chain.c.Detail"},"mid":{"d":{}}}`
	}
	cp := ClientPlan{Form: Pick(c, FormConnectUnary, FormGRPC, FormGRPCWeb), HTTP: 2, Service: "chain", Method: "Echo", Accept: []string{"gzip"}}
	ack := []byte{0x0a, 0x02, 'o', 'k'}
	if c.Bool() {
		ack = append(append(ack, 0x12, byte(len(anyMsg))), anyMsg...) // the response names the type too
	}
	if jsonSide == "client" {
		svc.Codecs = []string{"proto"}
		cp.Codec = "json"
		cp.Msgs = []MsgSpec{{Data: req, RawPayload: []byte(reqJSON), HasRaw: true}}
	} else {
		svc.Codecs = []string{"json"}
		cp.Codec = "proto"
		cp.Msgs = []MsgSpec{{Data: req, RawPayload: req, HasRaw: true}}
	}
	bp := BackendPlan{Resp: RespPlan{Msgs: []MsgSpec{{Data: ack}}, TrailerStyle: "prefix"}}
	p := &Plan{Config: ConfigPlan{Services: []ServicePlan{svc}}, RPCs: []RPCPlan{{Client: cp, Backend: bp}}, Sched: SchedPlan{Policy: "seq"}, Pool: PoolPlan{Policy: "lifo"}}
	p.Note = "chain"
	return p
}
