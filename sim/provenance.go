package verifsim

import (
	"fmt"

	"connectrpc.com/vanguard"
	"google.golang.org/protobuf/reflect/protoreflect"
)

func alternateSchemaImpl(via string, sch *Schema) (protoreflect.ServiceDescriptor, []vanguard.ServiceOption, error) {
	return nil, nil, fmt.Errorf("schema provenance %q not implemented", via)
}
