package verifsim

import (
	"fmt"
	"strings"

	"connectrpc.com/vanguard"
	"google.golang.org/protobuf/proto"
	"google.golang.org/protobuf/reflect/protodesc"
	"google.golang.org/protobuf/reflect/protoreflect"
	"google.golang.org/protobuf/reflect/protoregistry"
	"google.golang.org/protobuf/types/descriptorpb"
	"google.golang.org/protobuf/types/dynamicpb"
)

// Ways of supplying one and the same schema to NewTranscoder (C20).

// noParentService hides the parent file of a service descriptor.
type noParentService struct {
	protoreflect.ServiceDescriptor
}

func (noParentService) ParentFile() protoreflect.FileDescriptor { return nil }

// notFoundResolver knows nothing.
type notFoundResolver struct{}

func (notFoundResolver) FindMessageByName(protoreflect.FullName) (protoreflect.MessageType, error) {
	return nil, protoregistry.NotFound
}
func (notFoundResolver) FindMessageByURL(string) (protoreflect.MessageType, error) {
	return nil, protoregistry.NotFound
}
func (notFoundResolver) FindExtensionByName(protoreflect.FullName) (protoreflect.ExtensionType, error) {
	return nil, protoregistry.NotFound
}
func (notFoundResolver) FindExtensionByNumber(protoreflect.FullName, protoreflect.FieldNumber) (protoreflect.ExtensionType, error) {
	return nil, protoregistry.NotFound
}

// partialResolver is the global registry minus a set of message names: a resolver that knows some of a schema's types
// and not others (a descriptor set loaded at run time next to generated code for the well-known types, say).
type partialResolver struct {
	hidden map[protoreflect.FullName]bool
}

func (r partialResolver) FindMessageByName(n protoreflect.FullName) (protoreflect.MessageType, error) {
	if r.hidden[n] {
		return nil, protoregistry.NotFound
	}
	return protoregistry.GlobalTypes.FindMessageByName(n)
}
func (r partialResolver) FindMessageByURL(u string) (protoreflect.MessageType, error) {
	n := u
	if i := strings.LastIndexByte(u, '/'); i >= 0 {
		n = u[i+1:]
	}
	return r.FindMessageByName(protoreflect.FullName(n))
}
func (partialResolver) FindExtensionByName(n protoreflect.FullName) (protoreflect.ExtensionType, error) {
	return protoregistry.GlobalTypes.FindExtensionByName(n)
}
func (partialResolver) FindExtensionByNumber(m protoreflect.FullName, f protoreflect.FieldNumber) (protoreflect.ExtensionType, error) {
	return protoregistry.GlobalTypes.FindExtensionByNumber(m, f)
}

// hideTypes returns the request-only (or response-only) message types of a service.
func hideTypes(sd protoreflect.ServiceDescriptor, requests bool) map[protoreflect.FullName]bool {
	in, out := map[protoreflect.FullName]bool{}, map[protoreflect.FullName]bool{}
	ms := sd.Methods()
	for i := 0; i < ms.Len(); i++ {
		in[ms.Get(i).Input().FullName()] = true
		out[ms.Get(i).Output().FullName()] = true
	}
	hidden := map[protoreflect.FullName]bool{}
	a, b := in, out
	if !requests {
		a, b = out, in
	}
	for n := range a {
		if !b[n] {
			hidden[n] = true
		}
	}
	return hidden
}

// privateFiles rebuilds file and all its dependencies in a registry of their own. If dynamicOptions is set, the
// descriptors are re-parsed with extension types taken from that private registry, so that custom options such as
// google.api.http arrive as dynamic messages rather than as generated Go types.
func privateFiles(file protoreflect.FileDescriptor, dynamicOptions bool) (*protoregistry.Files, protoreflect.FileDescriptor, error) {
	return privateFilesRenamed(file, dynamicOptions, nil)
}

// privateFilesRenamed: as privateFiles; with rename, every file is registered under rename(path) and imports name the new
// paths (a vendored copy of the same files: where a file lives is not part of what it declares).
func privateFilesRenamed(file protoreflect.FileDescriptor, dynamicOptions bool, rename func(string) string) (*protoregistry.Files, protoreflect.FileDescriptor, error) {
	if rename == nil {
		rename = func(p string) string { return p }
	}
	files := &protoregistry.Files{}
	var build func(fd protoreflect.FileDescriptor) (protoreflect.FileDescriptor, error)
	build = func(fd protoreflect.FileDescriptor) (protoreflect.FileDescriptor, error) {
		if got, err := files.FindFileByPath(rename(fd.Path())); err == nil {
			return got, nil
		}
		imps := fd.Imports()
		for i := 0; i < imps.Len(); i++ {
			if _, err := build(imps.Get(i).FileDescriptor); err != nil {
				return nil, err
			}
		}
		fdp := protodesc.ToFileDescriptorProto(fd)
		fdp.Name = proto.String(rename(fd.Path()))
		for i, d := range fdp.Dependency {
			fdp.Dependency[i] = rename(d)
		}
		if dynamicOptions {
			raw, err := proto.Marshal(fdp)
			if err != nil {
				return nil, err
			}
			fdp = &descriptorpb.FileDescriptorProto{}
			if err := (proto.UnmarshalOptions{Resolver: dynamicpb.NewTypes(files)}).Unmarshal(raw, fdp); err != nil {
				return nil, err
			}
		}
		nf, err := protodesc.NewFile(fdp, files)
		if err != nil {
			return nil, err
		}
		if err := files.RegisterFile(nf); err != nil {
			return nil, err
		}
		return nf, nil
	}
	nf, err := build(file)
	return files, nf, err
}

func alternateSchemaImpl(via string, sch *Schema) (protoreflect.ServiceDescriptor, []vanguard.ServiceOption, error) {
	orig := sch.Service
	switch via {
	case "fresh":
		// a new file built from the serialised descriptor, dependencies resolved in the global registry
		fdp := protodesc.ToFileDescriptorProto(orig.ParentFile())
		nf, err := protodesc.NewFile(fdp, protoregistry.GlobalFiles)
		if err != nil {
			return nil, nil, err
		}
		return nf.Services().ByName(orig.Name()), nil, nil
	case "private":
		_, nf, err := privateFiles(orig.ParentFile(), true)
		if err != nil {
			return nil, nil, err
		}
		return nf.Services().ByName(orig.Name()), nil, nil
	case "vendored":
		// the same files loaded from a vendored tree: google/api/*.proto live under third_party/googleapis/, the options
		// are the generated Go types (parsed with the global registry, as a descriptor set read with proto.Unmarshal is)
		_, nf, err := privateFilesRenamed(orig.ParentFile(), false, func(p string) string {
			if strings.HasPrefix(p, "google/api/") {
				return "third_party/googleapis/" + p
			}
			return p
		})
		if err != nil {
			return nil, nil, err
		}
		return nf.Services().ByName(orig.Name()), nil, nil
	case "noparent":
		return noParentService{orig}, nil, nil
	case "notfound":
		return orig, []vanguard.ServiceOption{vanguard.WithTypeResolver(notFoundResolver{})}, nil
	case "hide-requests":
		// the resolver knows every type except the ones used only as requests: those fall back to dynamic messages
		return orig, []vanguard.ServiceOption{vanguard.WithTypeResolver(partialResolver{hideTypes(orig, true)})}, nil
	case "hide-responses":
		return orig, []vanguard.ServiceOption{vanguard.WithTypeResolver(partialResolver{hideTypes(orig, false)})}, nil
	case "fresh-notfound":
		fdp := protodesc.ToFileDescriptorProto(orig.ParentFile())
		nf, err := protodesc.NewFile(fdp, protoregistry.GlobalFiles)
		if err != nil {
			return nil, nil, err
		}
		return nf.Services().ByName(orig.Name()), []vanguard.ServiceOption{vanguard.WithTypeResolver(notFoundResolver{})}, nil
	}
	return nil, nil, fmt.Errorf("schema provenance %q not implemented", via)
}
