//go:build race

package verifsim

import (
	"fmt"
	"os"
	"regexp"
	"sort"
	"strings"
)

// In the race build the detector writes its reports to GORACE's log_path.<pid>. After every evaluated plan the new part
// of that file is read: a report counts when both conflicting accesses were made by the package under test (in each
// stack, the first frame that belongs to connectrpc.com/vanguard has no simulator frame above it: library code called by
// the package counts as the package's access, anything the simulator itself touches does not).

var (
	raceLogOff  int64
	raceLogPath string
	raceAccess  = regexp.MustCompile(`^(Read|Write|Previous read|Previous write|Atomic read|Atomic write|Previous atomic read|Previous atomic write) at 0x`)
)

func init() {
	for _, kv := range strings.Fields(os.Getenv("GORACE")) {
		if strings.HasPrefix(kv, "log_path=") {
			raceLogPath = fmt.Sprintf("%s.%d", strings.TrimPrefix(kv, "log_path="), os.Getpid())
		}
	}
}

type raceReport struct {
	a, b  string // call sites in the package under test, sorted
	shape string
	text  string
}

// sutSite names the package's call site of one access and says whether the access was made on the request-reading side
// (inside one of the request body adapters' Read) - the side that, in a full-duplex stream, runs on another goroutine than
// the response writer's users.
func sutSite(frames []string) (site string, readerSide bool) {
	for _, f := range frames {
		if strings.Contains(f, "(*transformingReader).Read") || strings.Contains(f, "(*envelopingReader).Read") ||
			strings.Contains(f, "(*envelopingReader).prepareNext") || strings.Contains(f, "(*hardLimitReader).Read") ||
			strings.Contains(f, "(*responseWriter).reportError") && !strings.Contains(strings.Join(frames, "\n"), "(*responseWriter).Write") {
			readerSide = true
		}
	}
	for _, f := range frames {
		if strings.Contains(f, "internal/verifsim") {
			return "", readerSide
		}
		if strings.HasPrefix(f, "connectrpc.com/vanguard.") {
			s := strings.TrimPrefix(f, "connectrpc.com/vanguard.")
			if i := strings.LastIndex(s, "("); i > 0 {
				s = s[:i]
			}
			s = strings.NewReplacer("(*", "", ")", "").Replace(s)
			return s, readerSide
		}
	}
	return "", readerSide
}

// libraryInternal: the innermost frame outside the runtime belongs to a library that keeps process-wide caches of its own.
func libraryInternal(frames []string) bool {
	for _, f := range frames {
		if strings.HasPrefix(f, "runtime.") || strings.HasPrefix(f, "internal/runtime/") {
			continue
		}
		return strings.Contains(f, "encoding/json.") || strings.HasPrefix(f, "reflect.") || strings.HasPrefix(f, "google.golang.org/protobuf/")
	}
	return false
}

func drainRaceReports() []raceReport {
	if raceLogPath == "" {
		return nil
	}
	f, err := os.Open(raceLogPath)
	if err != nil {
		return nil
	}
	defer f.Close()
	st, err := f.Stat()
	if err != nil || st.Size() <= raceLogOff {
		return nil
	}
	buf := make([]byte, st.Size()-raceLogOff)
	n, _ := f.ReadAt(buf, raceLogOff)
	raceLogOff += int64(n)
	var out []raceReport
	for _, rep := range strings.Split(string(buf[:n]), "==================\n") {
		if !strings.Contains(rep, "DATA RACE") {
			continue
		}
		var acc [][]string
		cur := -1
		for _, line := range strings.Split(rep, "\n") {
			t := strings.TrimSpace(line)
			switch {
			case raceAccess.MatchString(t):
				acc = append(acc, nil)
				cur = len(acc) - 1
			case strings.HasPrefix(t, "Goroutine "):
				cur = -1
			case cur >= 0 && strings.HasPrefix(line, "  ") && !strings.HasPrefix(line, "      ") && t != "":
				acc[cur] = append(acc[cur], t)
			}
		}
		if len(acc) < 2 {
			continue
		}
		a, ra := sutSite(acc[0])
		b, rb := sutSite(acc[1])
		if a == "" || b == "" {
			continue
		}
		if libraryInternal(acc[0]) && libraryInternal(acc[1]) {
			// both accesses are inside a library's own, documented-thread-safe machinery (encoding/json's and protobuf's
			// per-type caches, reflect): not the package's data. Seen once: the json field cache, published through a
			// sync.Map, reported between two tasks although the load follows the store.
			continue
		}
		pair := []string{a, b}
		sort.Strings(pair)
		r := raceReport{a: pair[0], b: pair[1], shape: "other", text: rep}
		if ra != rb {
			// one access on the request-reading side, the other by a user of the response writer: state of the response
			// writer (or an object the reader handed to it) shared between the two goroutines of a full-duplex handler
			r.shape = "request-reader-vs-response-writer"
		}
		out = append(out, r)
	}
	return out
}

// raceAugment adds the detector's findings of the plan just evaluated to its verdict.
func raceAugment(v *Verdict) {
	for _, r := range drainRaceReports() {
		text := r.text
		if len(text) > 3000 {
			text = text[:3000] + "..."
		}
		facts := map[string]string{"shape": r.shape}
		if r.shape == "other" {
			facts["a"], facts["b"] = r.a, r.b
		}
		// (which of several conflicting pairs on the same object the detector reports first varies; the shape does not)
		v.violate("data-race", facts, "the race detector reports unsynchronised accesses by two tasks (%s x %s):\n%s", r.a, r.b, text)
	}
	v.probe("race-detector-armed")
}
