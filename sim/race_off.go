//go:build !race

package verifsim

import "unsafe"

func raceAcquire(unsafe.Pointer)      {}
func raceRelease(unsafe.Pointer)      {}
func raceReleaseMerge(unsafe.Pointer) {}
