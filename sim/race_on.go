//go:build race

package verifsim

import (
	"runtime"
	"unsafe"
)

// The happens-before edges that real programs have at these points and that the pipe baton does not provide.
func raceAcquire(p unsafe.Pointer)      { runtime.RaceAcquire(p) }
func raceRelease(p unsafe.Pointer)      { runtime.RaceRelease(p) }
func raceReleaseMerge(p unsafe.Pointer) { runtime.RaceReleaseMerge(p) }
