package verifsim

import (
	"fmt"
	"net/http"
	"sort"
	"strings"
)

// C05: application headers and trailers survive transcoding in both directions, trailers arrive
// where the client's protocol puts them, protocol status keys never leak into application metadata.

func genMetaSet(c *Chooser, n int) [][2]string {
	names := []string{"X-App", "x-lower-case", "X-MiXeD-CaSe", "X-Multi", "X-Data-Bin", "Authorization", "X-Trace-Id", "Set-Cookie", "Cookie", "X-Empty", "Message",
		"X-Custom-Bin", "Etag", "Cache-Control", "Vary", "X-Request-Id", "Server-Timing", "X-Grpc-Web", "Link", "X-9", "Zz-Top", "Foo.Bar_baz~1"}
	var out [][2]string
	for i := 0; i < n; i++ {
		k := names[c.Intn(len(names))]
		var v string
		switch c.Intn(6) {
		case 0:
			v = ""
		case 1:
			v = "v" + string(rune('a'+c.Intn(26)))
		case 2:
			v = "YWJjZA"
		case 3:
			v = "a, b;c=d \"q\" (x)"
		case 4:
			v = "tok/en+with=chars?&%25"
		default:
			v = "AQIDBAUG/+8"
		}
		if c.Prob(0.08) {
			v = longMetaValue(c)
		}
		out = append(out, [2]string{k, v})
		if c.Prob(0.25) {
			out = append(out, [2]string{k, v + "2"})
		}
	}
	return out
}

func metaMultimap(kvs [][2]string) map[string][]string {
	m := map[string][]string{}
	for _, kv := range kvs {
		k := http.CanonicalHeaderKey(kv[0])
		m[k] = append(m[k], kv[1])
	}
	return m
}

func diffMeta(want, got map[string][]string) string {
	var diffs []string
	keys := map[string]bool{}
	for k := range want {
		keys[k] = true
	}
	for k := range got {
		keys[k] = true
	}
	var ks []string
	for k := range keys {
		ks = append(ks, k)
	}
	sort.Strings(ks)
	for _, k := range ks {
		w, g := want[k], got[k]
		if !equalStrings(w, g) {
			// values of one key may legally be folded into one comma-joined field
			if strings.Join(w, ", ") == strings.Join(g, ", ") || strings.Join(w, ",") == strings.Join(g, ",") {
				continue
			}
			diffs = append(diffs, fmt.Sprintf("%s: want %q got %q", k, w, g))
		}
	}
	return strings.Join(diffs, "; ")
}

func c05Oracle(p *Plan) *Verdict {
	v := &Verdict{}
	r := Run(p)
	v.absorb(r)
	if r.World != nil {
		v.Trace = r.World.Log
	}
	facts := scenarioFacts(p, 0)
	rc := &p.RPCs[0]
	outcome := "ok"
	if rc.Backend.Resp.Err != nil {
		outcome = "error"
	}
	facts["outcome"] = outcome
	facts["tstyle"] = rc.Backend.Resp.TrailerStyle
	v.Class = fmt.Sprintf("%s>%s/%s/%s/%s/%s", facts["form"], facts["target"], facts["path"], facts["shape"], outcome, rc.Backend.Resp.TrailerStyle)
	if r.BuildErr != "" {
		return v
	}
	st := r.RPCs[0]
	if st.ServePanic != "" || r.Deadlock || r.StepCap || st.Outcome == nil || len(st.Backend) != 1 {
		return v
	}
	b, o := st.Backend[0], st.Outcome
	v.Nontrivial = true
	if rc.Backend.Resp.StrayHTTPTrailer {
		// a real HTTP trailer from a Connect-unary backend has no defined place: wherever it ends up, the handler's
		// Trailer- headers must still arrive
		v.probe("stray-http-trailer")
		delete(o.Headers, strayTrailerKey)
		delete(o.Trailers, strayTrailerKey)
	}
	if d := diffMeta(metaMultimap(rc.Client.Headers), b.AppHeaders); d != "" {
		v.violate("request-headers", facts, "request metadata changed on the way to the backend: %s", d)
	}
	if (outcome == "ok") != (o.Kind == "ok") {
		return v // another property's business (C01/C04)
	}
	rp := &rc.Backend.Resp
	if b.Protocol == ProtoREST {
		// a REST backend has no trailers to send: only its headers are expected at the client
		rp = &RespPlan{Headers: rp.Headers, Err: rp.Err, ErrInHeaders: rp.ErrInHeaders, Msgs: rp.Msgs}
	}
	if rc.Client.Form == FormREST && len(rp.Trailers) > 0 {
		// the property names a trailer position for Connect, gRPC and gRPC-Web clients only; a REST response has none
		// (the transcoder drops trailers there), so only headers are judged for REST clients
		v.probe("rest-client-trailers-not-judged")
		if rp.Err != nil && rp.ErrInHeaders && len(rp.Msgs) == 0 && (b.Protocol == ProtoGRPC || b.Protocol == ProtoGRPCWeb) {
			return v // trailers-only: headers and trailers are one block on the wire and cannot be told apart
		}
		rp = &RespPlan{Headers: rp.Headers, Err: rp.Err, ErrInHeaders: rp.ErrInHeaders, Msgs: rp.Msgs}
	}
	if o.TrailersOnly || (rp.Err != nil && rp.ErrInHeaders && len(rp.Msgs) == 0 && (b.Protocol == ProtoGRPC || b.Protocol == ProtoGRPCWeb)) {
		// trailers-only: the protocol merges headers and trailers into one block, so only the union is defined
		want := metaMultimap(append(append([][2]string{}, rp.Headers...), rp.Trailers...))
		got := map[string][]string{}
		for k, vs := range o.Headers {
			got[k] = append(got[k], vs...)
		}
		for k, vs := range o.Trailers {
			got[k] = append(got[k], vs...)
		}
		if d := diffMeta(want, got); d != "" {
			v.violate("response-metadata", facts, "trailers-only response metadata changed on the way to the client: %s", d)
		}
		v.probe("trailers-only")
		return v
	}
	if d := diffMeta(metaMultimap(rp.Headers), o.Headers); d != "" {
		f := copyFacts(facts)
		v.violate("response-headers", f, "response headers changed on the way to the client: %s", d)
	}
	if d := diffMeta(metaMultimap(rp.Trailers), o.Trailers); d != "" {
		v.violate("response-trailers", facts, "response trailers changed or are not where %s puts them: %s", rc.Client.Form, d)
	}
	if len(rp.Trailers) > 0 {
		v.probe("trailers-" + outcome)
	}
	// protocol status keys must not leak into what the client sees as metadata
	leak := func(where string, h http.Header) {
		for k := range h {
			lk := strings.ToLower(k)
			if strings.HasPrefix(lk, "grpc-status") || lk == "grpc-message" {
				if rc.Client.Form == FormGRPC || (rc.Client.Form == FormGRPCWeb && where == "headers") {
					continue
				}
				v.violate("status-key-leak", facts, "%s carry protocol status key %s for a %s client", where, k, rc.Client.Form)
			}
		}
	}
	leak("headers", st.rw.Snap)
	leak("trailers", st.rw.Trailers)
	for k := range o.Trailers {
		lk := strings.ToLower(k)
		if strings.HasPrefix(lk, "grpc-") {
			v.violate("status-key-leak", facts, "application trailers include %s", k)
		}
	}
	return v
}

func init() {
	register(&Check{
		ID:    "C05",
		Level: "exploration",
		Rule: "seeded single-RPC scenarios with drawn request-header, response-header and trailer sets (mixed-case token names, repeated keys, multi-values, base64 -bin values, names close to control headers; in a quarter of the runs the handler stores repeated response headers into the header map directly under two spellings of the name), " +
			"both trailer declaration styles (Trailer header / http.TrailerPrefix), success and error outcomes; oracle = relocation model: metadata minus the protocol's control set must arrive unchanged, " +
			"trailers in the position the client's protocol defines; distinct = (form>target/path/shape/outcome/trailer style, schedule hash); non-trivial = backend reached and response produced",
		Gen: func(c *Chooser, tier string) *Plan {
			p := genScenario(c, ScenOpts{MaxMsgs: 2, MaxBytes: 40, NoErr: true})
			if p == nil {
				return nil
			}
			rc := &p.RPCs[0]
			rc.Client.Headers = genMetaSet(c, c.Intn(5))
			rc.Backend.Resp.Headers = genMetaSet(c, c.Intn(5))
			rc.Backend.Resp.Trailers = nil
			rc.Backend.Resp.RawHeaderKeys = c.Prob(0.25)
			hk := metaMultimap(rc.Backend.Resp.Headers)
			for _, kv := range genMetaSet(c, c.Intn(5)) {
				if _, dup := hk[http.CanonicalHeaderKey(kv[0])]; !dup { // one name is either a header or a trailer
					rc.Backend.Resp.Trailers = append(rc.Backend.Resp.Trailers, kv)
				}
			}
			if c.Prob(0.35) {
				rc.Backend.Resp.Err = &ErrSpec{Code: c.Range(1, 16), Msg: "failed"}
				rc.Backend.Resp.ErrInHeaders = c.Bool()
				_, md := planMethod(p, 0)
				if md == nil || !md.IsStreamingServer() {
					rc.Backend.Resp.Msgs = nil
				}
			}
			return p
		},
		Oracle:     c05Oracle,
		Components: stdComponents,
		Assumptions: []string{"header names compare case-insensitively; values of one name compare as an ordered list, a comma-joined single field being equal to the list",
			"generated metadata never uses control or hop-by-hop header names, nor leading/trailing blanks in values"},
	})
}
