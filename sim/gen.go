package verifsim

import (
	"strings"
	"unicode/utf8"

	"google.golang.org/protobuf/proto"

	"google.golang.org/protobuf/reflect/protoreflect"
)

// ---------------------------------------------------------------------------------------
// reference negotiation model (what the statement of C02 says the transcoder must choose)

type negotiated struct {
	Protocol    string
	Codec       string
	Compression string
}

func refNegotiate(svc *ServicePlan, form, codec, comp string) negotiated {
	var n negotiated
	cp := formProtocol(form)
	for _, p := range svc.protocols() {
		if p == cp {
			n.Protocol = cp
		}
	}
	if n.Protocol == "" {
		for _, p := range []string{ProtoConnect, ProtoGRPC, ProtoGRPCWeb, ProtoREST} {
			for _, q := range svc.protocols() {
				if p == q && n.Protocol == "" {
					n.Protocol = p
				}
			}
		}
	}
	if n.Protocol == ProtoREST {
		n.Codec = "json"
	} else {
		for _, c := range svc.codecs() {
			if c == codec {
				n.Codec = codec
			}
		}
		if n.Codec == "" {
			n.Codec = svc.codecs()[0]
		}
	}
	for _, c := range svc.compressions() {
		if c == comp {
			n.Compression = comp
		}
	}
	return n
}

// ---------------------------------------------------------------------------------------
// generators

var allTargetProtocols = []string{ProtoConnect, ProtoGRPC, ProtoGRPCWeb}
var allCodecs = []string{"proto", "json", "alt"}
var allCompressions = []string{"gzip", "deflate"}

func genSubset(c *Chooser, xs []string, nonEmpty bool) []string {
	for {
		var out []string
		for _, x := range xs {
			if c.Bool() {
				out = append(out, x)
			}
		}
		// random order matters for codecs (first is preferred)
		for i := len(out) - 1; i > 0; i-- {
			j := c.Intn(i + 1)
			out[i], out[j] = out[j], out[i]
		}
		if len(out) > 0 || !nonEmpty {
			return out
		}
	}
}

func genService(c *Chooser, schema string) ServicePlan {
	// declared frame lengths up to the limit are allocated before the bytes arrive: keep the limit modest so that
	// hostile lengths cost kilobytes, not gigabytes (the default limit is 4 GiB)
	sp := ServicePlan{Schema: schema, MaxMsg: Pick(c, uint32(1<<20), 1<<20, 4<<20, 1<<17)}
	if c.Prob(0.8) {
		sp.Protocols = genSubset(c, allTargetProtocols, true)
	}
	if c.Prob(0.8) {
		sp.Codecs = genSubset(c, allCodecs, true)
	}
	switch c.Intn(4) {
	case 0:
		sp.NoCompression = true
	case 1:
	default:
		sp.Compression = genSubset(c, allCompressions, false)
		if len(sp.Compression) == 0 {
			sp.Compression = nil
			sp.NoCompression = true
		}
	}
	return sp
}

type methodInfo struct {
	Name   string
	CS, SS bool
	NSE    bool
}

var simMethods = []methodInfo{
	{"Unary", false, false, false}, {"UnaryNSE", false, false, true}, {"ClientStream", true, false, false},
	{"ServerStream", false, true, false}, {"Bidi", true, true, false},
	{"RestAll", false, false, false}, {"RestAllNSE", false, false, true}, // bound with POST /sim/v1/all{,nse} body "*"
	{"RestGet", false, false, false}, // bound with GET /sim/v1/get/{string_value}, no body (RPC clients only)
}

func isRestBound(method string) bool {
	return method == "RestAll" || method == "RestAllNSE" || method == "RestGet"
}

// genQueryableMsg draws an AllTypes message that a binding without a body can carry: a non-empty path variable and a few
// scalar fields for the query string.
func genQueryableMsg(c *Chooser, md protoreflect.MessageDescriptor, mo *MsgGenOpts) proto.Message {
	m := newMessageFor(md)
	r := m.ProtoReflect()
	fs := md.Fields()
	po := *mo
	po.PathSafe = true
	sv := genString(c, &po)
	if sv == "" || !utf8.ValidString(sv) {
		sv = "x"
	}
	r.Set(fs.ByName("string_value"), protoreflect.ValueOfString(sv))
	if c.Bool() {
		r.Set(fs.ByName("int32_value"), protoreflect.ValueOfInt32(int32(c.Range(-5, 100000))))
	}
	if c.Bool() {
		r.Set(fs.ByName("bool_value"), protoreflect.ValueOfBool(true))
	}
	if c.Bool() {
		l := r.Mutable(fs.ByName("string_list")).List()
		for i := c.Intn(3); i >= 0; i-- {
			s := genString(c, mo)
			if utf8.ValidString(s) {
				l.Append(protoreflect.ValueOfString(s))
			}
		}
	}
	return m
}

func genHeaderSet(c *Chooser, n int) [][2]string {
	names := []string{"X-App", "x-lower", "X-Multi", "X-Data-Bin", "Authorization", "X-Trace-Id", "Cookie", "X-Empty", "Message", "X-Custom-Bin"}
	var out [][2]string
	for i := 0; i < n; i++ {
		k := names[c.Intn(len(names))]
		var v string
		switch c.Intn(4) {
		case 0:
			v = ""
		case 1:
			v = "v" + string(rune('a'+c.Intn(26)))
		case 2:
			v = "YWJjZA"
		default:
			v = "a, b;c=d \"q\""
		}
		if k == "X-Empty" {
			v = ""
		} else if c.Prob(0.08) {
			v = longMetaValue(c)
		}
		out = append(out, [2]string{k, v})
	}
	return out
}

// longMetaValue: a header value of several hundred to a few thousand bytes (valid base64 and plain text at once): metadata
// blocks larger than a fresh pooled buffer.
func longMetaValue(c *Chooser) string { return strings.Repeat("QUJD", c.Range(130, 800)) }

func genSegSizes(c *Chooser) []int {
	switch c.Intn(7) {
	case 0:
		return nil
	case 1:
		return []int{1}
	case 2:
		return []int{c.Range(2, 7)}
	case 3:
		return []int{4, 1}
	case 4:
		return []int{5}
	case 5:
		return []int{c.Range(1, 9), c.Range(1, 64), c.Range(1, 5)}
	}
	return []int{c.Range(1, 300)}
}

func genSched(c *Chooser) SchedPlan {
	switch c.Intn(6) {
	case 0, 1:
		return SchedPlan{Policy: "seq"}
	case 2:
		return SchedPlan{Policy: "uniform", Seed: c.Uint64()}
	case 3:
		return SchedPlan{Policy: "sticky", Seed: c.Uint64(), Param: c.Range(50, 95)}
	case 4:
		return SchedPlan{Policy: "pct", Seed: c.Uint64(), Param: c.Range(1, 3)}
	}
	return SchedPlan{Policy: "starve", Seed: c.Uint64(), Param: c.Intn(4)}
}

func genPool(c *Chooser) PoolPlan {
	return PoolPlan{Policy: Pick(c, "lifo", "lifo", "fifo", "random", "never"), Seed: c.Uint64(), Poison: c.Prob(0.7), Quarantine: Pick(c, 0, 0, 2)}
}

// ScenOpts steers genScenario.
type ScenOpts struct {
	Forms       []string
	Methods     []string // restrict sim methods
	MaxMsgs     int
	MaxBytes    int
	NoErr       bool
	Segment     bool // draw segmentations for the three streams
	SingleEntry bool
}

// genScenario draws a fault-free single-RPC plan on the dynamic sim service.
func enveloped(form string) bool {
	return form == FormGRPC || form == FormGRPCWeb || form == FormConnectStream
}

func genScenario(c *Chooser, o ScenOpts) *Plan {
	svc := genService(c, "sim")
	rpc := genRPC(c, o)
	if rpc == nil {
		return nil
	}
	if isRestBound(rpc.Client.Method) && c.Prob(0.5) {
		// only bound methods can be served by a REST backend
		if c.Bool() {
			svc.Protocols = []string{ProtoREST}
		} else {
			svc.Protocols = append(append([]string{}, svc.protocols()...), ProtoREST)
		}
	}
	// a fault-free scenario stays under the configured limit in every encoding (JSON escaping can be 6x the binary
	// form); limits themselves are C10's subject
	largest := 0
	for _, m := range rpc.Client.Msgs {
		largest = maxInt(largest, len(m.Data))
	}
	for _, m := range rpc.Backend.Resp.Msgs {
		largest = maxInt(largest, len(m.Data))
	}
	for uint64(svc.MaxMsg) < uint64(largest)*8+4096 {
		svc.MaxMsg *= 2
	}
	if largest > 2048 {
		// keep the number of pieces (scheduler steps) of a large body in the hundreds
		k := largest/512 + 1
		for _, sizes := range [][]int{rpc.Client.Deliveries, rpc.Backend.ReadSizes, rpc.Backend.Resp.WriteSizes} {
			for i := range sizes {
				sizes[i] *= k
			}
		}
	}
	p := &Plan{Config: ConfigPlan{Services: []ServicePlan{svc}}, RPCs: []RPCPlan{*rpc}, Sched: SchedPlan{Policy: "seq"}, Pool: PoolPlan{Policy: "lifo"}}
	if o.Segment {
		p.Sched = genSched(c)
		p.Pool = genPool(c)
	}
	return p
}

// genRPC draws one fault-free RPC against the sim service (whatever its configuration).
func genRPC(c *Chooser, o ScenOpts) *RPCPlan {
	forms := o.Forms
	if forms == nil {
		forms = []string{FormGRPC, FormGRPCWeb, FormConnectStream, FormConnectUnary, FormConnectGet, FormREST}
	}
	form := forms[c.Intn(len(forms))]
	var cands []methodInfo
	for _, m := range simMethods {
		streaming := m.CS || m.SS
		if m.Name == "RestGet" && form == FormREST {
			continue
		}
		switch form {
		case FormConnectUnary:
			if streaming {
				continue
			}
		case FormConnectGet:
			if !m.NSE {
				continue
			}
		case FormConnectStream:
			if !streaming {
				continue
			}
		case FormREST:
			if !isRestBound(m.Name) {
				continue
			}
		}
		if o.Methods != nil {
			ok := false
			for _, n := range o.Methods {
				if n == m.Name {
					ok = true
				}
			}
			if !ok {
				continue
			}
		}
		cands = append(cands, m)
	}
	if len(cands) == 0 {
		return nil
	}
	m := cands[c.Intn(len(cands))]
	httpv := Pick(c, 1, 2)
	if form == FormGRPC || (m.CS && m.SS) {
		httpv = 2
	}
	cp := ClientPlan{Form: form, HTTP: httpv, Service: "sim", Method: m.Name,
		Codec: Pick(c, "proto", "json", "alt"), Compression: Pick(c, "", "", "gzip", "deflate"), ShortCT: c.Prob(0.3)}
	cp.Accept = genSubset(c, allCompressions, false)
	if cp.Compression != "" && c.Prob(0.7) {
		has := false
		for _, a := range cp.Accept {
			if a == cp.Compression {
				has = true
			}
		}
		if !has {
			cp.Accept = append(cp.Accept, cp.Compression)
		}
	}
	cp.Headers = genHeaderSet(c, c.Intn(3))
	if c.Prob(0.3) {
		cp.Spelling = Pick(c, 1, 2, 3, 4, 5) // legal spellings of the same request (charset parameter, list separators, repeated header lines)
	}
	if c.Prob(0.25) {
		// a valid timeout in the form's own encoding, weighted to values at which a target encoding changes unit or digit count
		switch form {
		case FormGRPC, FormGRPCWeb:
			cp.Timeout = Pick(c, "100m", "100S", "99999999m", "1H", "2050m", "1000000u", "100000u", "7n", "59M")
		case FormREST:
			cp.Timeout = Pick(c, "0.1", "100", "2.05", "99.9999995", "1", "3600", "0.05")
		default:
			cp.Timeout = Pick(c, "100", "100000", "100000000", "2050", "5", "60001", "1")
		}
	}
	if form == FormConnectGet && c.Prob(0.3) {
		// a GET may name the protocol version in a header as well as (or instead of, see C19) in the query
		cp.ExtraHdrs = append(cp.ExtraHdrs, [2]string{"Connect-Protocol-Version", "1"})
	}
	sch := getSchema("sim")
	md := sch.method(m.Name)
	mo := &MsgGenOpts{MaxDepth: 2, MaxBytes: maxInt(o.MaxBytes, 64), SingleEntry: true}
	nreq := 1
	if m.CS {
		nreq = c.Intn(maxInt(o.MaxMsgs, 3) + 1)
	}
	for i := 0; i < nreq; i++ {
		ms := MsgSpec{Data: canonBytes(genMessage(c, md.Input(), mo, 0)), Compressed: c.Prob(0.6)}
		if m.Name == "RestGet" {
			ms.Data = canonBytes(genQueryableMsg(c, md.Input(), mo))
		}
		if (nreq > 1 && c.Prob(0.15)) || (nreq == 1 && m.Name != "RestGet" && c.Prob(0.06)) {
			ms.Data = []byte{} // the all-defaults message: zero bytes in the binary codec, anywhere in a stream or as the one message of a unary call
		}
		cp.Msgs = append(cp.Msgs, ms)
	}
	if (form == FormConnectUnary || form == FormREST) && c.Prob(0.3) {
		cp.DeclareCL = "none" // a body of unknown length (chunked, or HTTP/2 without content-length), as streaming clients send
	}
	if form == FormREST {
		cp.Codec, cp.ShortCT = "json", false
		cp.HTTPMethod = "POST"
		cp.Path = "/sim/v1/all"
		if m.Name == "RestAllNSE" {
			cp.Path = "/sim/v1/allnse"
		}
		rm := newMessageFor(md.Input())
		_ = proto.Unmarshal(cp.Msgs[0].Data, rm)
		cp.RestJSON, _ = refMarshal("json", rm)
		cp.Msgs[0].Compressed = true
	}
	bp := BackendPlan{}
	nresp := 1
	if m.SS {
		nresp = c.Intn(maxInt(o.MaxMsgs, 3) + 1)
	}
	rp := &bp.Resp
	if !o.NoErr && c.Prob(0.25) {
		rp.Err = &ErrSpec{Code: c.Range(1, 16), Msg: strings.TrimSpace(genString(c, mo))} // header values cannot carry outer blanks
		if c.Prob(0.4) {
			rp.Err.Details = []Detail{{Type: "google.protobuf.StringValue", Value: []byte{0x0a, 0x01, 'x'}}}
		}
		if !m.SS {
			nresp = 0
		} else {
			nresp = c.Intn(nresp + 1)
		}
		rp.ErrInHeaders = c.Bool()
	}
	for i := 0; i < nresp; i++ {
		if nresp > 1 && c.Prob(0.15) {
			rp.Msgs = append(rp.Msgs, MsgSpec{Data: []byte{}, Compressed: c.Prob(0.6)})
			continue
		}
		rp.Msgs = append(rp.Msgs, MsgSpec{Data: canonBytes(genMessage(c, md.Output(), mo, 0)), Compressed: c.Prob(0.6)})
	}
	rp.Compression = Pick(c, "", "gzip", "deflate")
	rp.Headers = genHeaderSet(c, c.Intn(3))
	rp.Trailers = nil
	for _, kv := range genHeaderSet(c, c.Intn(3)) {
		dup := false
		for _, h := range rp.Headers {
			if h[0] == kv[0] {
				dup = true
			}
		}
		if !dup {
			rp.Trailers = append(rp.Trailers, kv)
		}
	}
	rp.TrailerStyle = Pick(c, "announce", "prefix", "announce", "prefix", "mixed")
	rp.StrayHTTPTrailer = len(rp.Trailers) > 0 && c.Prob(0.15)
	rp.CompressErrBody = c.Prob(0.3)
	rp.CTCharset = c.Prob(0.2)
	rp.EarlyTrailers = c.Prob(0.25)
	if rp.TrailerStyle == "announce" && c.Prob(0.4) {
		rp.AnnounceCase = Pick(c, "lower", "upper", "given", "lines")
	}
	rp.ExplicitHdr = c.Bool()
	if o.Segment {
		cp.Deliveries = genSegSizes(c)
		cp.EOFWithData = c.Prob(0.3)
		bp.ReadSizes = genSegSizes(c)
		switch c.Intn(5) {
		case 0:
		case 1:
			rp.WriteMode = "frames"
		case 2:
			rp.WriteMode = "prefix-payload"
		default:
			rp.WriteMode = "sizes"
			rp.WriteSizes = genSegSizes(c)
			if rp.WriteSizes == nil {
				rp.WriteSizes = []int{1}
			}
		}
		bp.CloseBody = Pick(c, "", "", "after-read", "at-return", "twice")
		rp.EmptyWrites = c.Prob(0.2)
		rp.FlushEvery = Pick(c, 0, 1, 2, 3)
		cp.RW = Pick(c, "", "", "flusherr", "unwrap", "buffering")
	}
	return &RPCPlan{Client: cp, Backend: bp}
}

func methodStreamFacts(md protoreflect.MethodDescriptor) string {
	switch {
	case md == nil:
		return "?"
	case md.IsStreamingClient() && md.IsStreamingServer():
		return "bidi"
	case md.IsStreamingClient():
		return "client-stream"
	case md.IsStreamingServer():
		return "server-stream"
	}
	return "unary"
}

// scenarioFacts derives the standard fact set for a single-RPC plan.
func scenarioFacts(p *Plan, ri int) map[string]string {
	r := &p.RPCs[ri]
	f := map[string]string{"form": r.Client.Form}
	var svc *ServicePlan
	for i := range p.Config.Services {
		if p.Config.Services[i].Schema == r.Client.Service {
			svc = &p.Config.Services[i]
		}
	}
	if svc == nil {
		return f
	}
	n := refNegotiate(svc, r.Client.Form, r.Client.Codec, r.Client.Compression)
	f["target"] = n.Protocol
	sch := getSchema(svc.Schema)
	md := sch.method(r.Client.Method)
	f["shape"] = methodStreamFacts(md)
	switch {
	case formProtocol(r.Client.Form) == n.Protocol && r.Client.Codec == n.Codec && r.Client.Compression == n.Compression:
		f["path"] = "passthrough"
	case r.Client.Form == FormREST || n.Protocol == ProtoREST || r.Client.Form == FormConnectGet:
		f["path"] = "prep"
	case r.Client.Codec == n.Codec && r.Client.Compression == n.Compression:
		f["path"] = "reframe"
	default:
		f["path"] = "reencode"
	}
	// the response direction re-encodes only when the codecs differ (compression is the backend's choice)
	switch {
	case f["path"] == "passthrough" || f["path"] == "prep":
		f["rpath"] = f["path"]
	case r.Client.Codec == n.Codec:
		f["rpath"] = "reframe"
	default:
		f["rpath"] = "reencode"
	}
	return f
}
