package verifsim

import (
	"fmt"
	"regexp"
	"strings"
)

var reDigits = regexp.MustCompile(`[0-9]+`)
var reQuoted = regexp.MustCompile(`"[^"]*"`)

// problemClass reduces a validator message to its kind (a stable fact for fingerprints).
func problemClass(s string) string {
	if i := strings.Index(s, ":"); i > 0 && i < 60 {
		s = s[:i]
	}
	s = reQuoted.ReplaceAllString(s, "Q")
	for _, n := range []string{"gzip", "deflate", "identity"} {
		s = strings.ReplaceAll(s, n, "Z")
	}
	s = reDigits.ReplaceAllString(s, "N")
	if len(s) > 70 {
		s = s[:70]
	}
	return strings.TrimSpace(s)
}

func contains(xs []string, x string) bool {
	for _, y := range xs {
		if y == x {
			return true
		}
	}
	return false
}

// checkBackendRequests: C02 - every request handed to a service handler is valid and negotiated as stated.
func checkBackendRequests(v *Verdict, p *Plan, r *RunResult, ri int, facts map[string]string) {
	st := r.RPCs[ri]
	rc := &p.RPCs[ri]
	if st.Rejected != "" || st.svc == nil {
		return
	}
	for _, b := range st.Backend {
		if b.Service == "<unknown-handler>" || rc.Passthrough {
			continue
		}
		v.Nontrivial = true
		seen := map[string]bool{}
		for _, prob := range b.Problems {
			k := problemClass(prob)
			if seen[k] {
				continue
			}
			seen[k] = true
			f := copyFacts(facts)
			f["kind"] = k
			v.violate("invalid-backend-request", f, "%s (request: %s %s ct=%q)", prob, b.Method, b.Path, b.Header.Get("Content-Type"))
		}
		cproto := formProtocol(rc.Client.Form)
		if contains(st.svc.protocols(), cproto) && b.Protocol != cproto {
			v.violate("protocol-not-kept", facts, "client protocol %s is acceptable to the service (%v) but the backend was addressed in %s", cproto, st.svc.protocols(), b.Protocol)
		}
		if b.Protocol != ProtoREST && contains(st.svc.codecs(), rc.Client.Codec) && b.Codec != rc.Client.Codec {
			v.violate("codec-not-kept", facts, "client codec %s is acceptable to the service (%v) but the backend received %s", rc.Client.Codec, st.svc.codecs(), b.Codec)
		}
		if rc.Client.Compression != "" && contains(st.svc.compressions(), rc.Client.Compression) && b.Compression != rc.Client.Compression && rc.Client.Form != FormConnectGet {
			v.violate("compression-not-kept", facts, "client compression %s is acceptable to the service (%v) but the backend received %q", rc.Client.Compression, st.svc.compressions(), b.Compression)
		}
	}
}

func c02Oracle(p *Plan) *Verdict {
	v := &Verdict{}
	r := Run(p)
	v.absorb(r)
	if r.World != nil {
		v.Trace = r.World.Log
	}
	facts := scenarioFacts(p, 0)
	svc := &p.Config.Services[0]
	v.Class = fmt.Sprintf("%s>%s/%s/%s|P%v|C%v|Z%v", facts["form"], facts["target"], facts["path"], facts["shape"], svc.protocols(), svc.codecs(), svc.compressions())
	if r.BuildErr != "" {
		return v
	}
	checkBackendRequests(v, p, r, 0, facts)
	return v
}

func init() {
	register(&Check{
		ID:    "C02",
		Level: "exploration",
		Rule: "seeded single-RPC scenarios as in C01 with the weight on configurations (every non-empty subset of target protocols, ordered codec sets, compression subsets); " +
			"every request a service handler receives goes through a strict per-protocol validator written from the specs (request line, HTTP version, content-type, control headers, envelopes, " +
			"declared vs actual compression, payload decodes under declared codec, leftovers that contradict) plus the keep-if-acceptable negotiation rule; " +
			"distinct = (form>target/path/shape, configured sets, schedule hash); non-trivial = a service handler was invoked",
		Gen: func(c *Chooser, tier string) *Plan {
			return genScenario(c, ScenOpts{MaxMsgs: 3, MaxBytes: 120, Segment: c.Prob(0.2)})
		},
		Oracle:      c02Oracle,
		Components:  stdComponents,
		Assumptions: []string{"the validator encodes my reading of the four protocol specifications", "REST-target requests are validated structurally here and semantically (binding) in C07"},
	})
}
