// Package verifsim is a deterministic simulator for connectrpc.com/vanguard.
//
// It is compiled into the repository's module through a build overlay
// (see /verif/vsim), so that it can import the repository's internal
// generated packages without writing anything into /repo.
package verifsim

import (
	"crypto/sha256"
	"encoding/hex"
	"fmt"
	"math/rand/v2"
	"runtime"
	"runtime/debug"
	"sort"
	"strings"
	"time"
	"unsafe"

	"connectrpc.com/vanguard/internal/verifsim/verifsync"
	"connectrpc.com/vanguard/internal/verifsim/verifsync/simtime"
)

// ---------------------------------------------------------------------------------------
// Chooser: the only source of randomness. One per plan generation, one per schedule.

type Chooser struct {
	r *rand.Rand
}

func NewChooser(seed uint64, stream uint64) *Chooser {
	return &Chooser{r: rand.New(rand.NewPCG(seed, stream^0x9e3779b97f4a7c15))}
}

func (c *Chooser) Intn(n int) int {
	if n <= 1 {
		return 0
	}
	return c.r.IntN(n)
}
func (c *Chooser) Range(lo, hi int) int { // inclusive
	if hi <= lo {
		return lo
	}
	return lo + c.r.IntN(hi-lo+1)
}
func (c *Chooser) Bool() bool           { return c.r.IntN(2) == 0 }
func (c *Chooser) Prob(p float64) bool  { return c.r.Float64() < p }
func (c *Chooser) Uint64() uint64       { return c.r.Uint64() }
func (c *Chooser) Float() float64       { return c.r.Float64() }
func Pick[T any](c *Chooser, xs ...T) T { return xs[c.Intn(len(xs))] }
func PickW[T any](c *Chooser, xs []T, weights []int) T {
	total := 0
	for _, w := range weights {
		total += w
	}
	n := c.Intn(total)
	for i, w := range weights {
		if n < w {
			return xs[i]
		}
		n -= w
	}
	return xs[len(xs)-1]
}
func (c *Chooser) Bytes(n int) []byte {
	b := make([]byte, n)
	for i := range b {
		b[i] = byte(c.r.IntN(256))
	}
	return b
}

// ---------------------------------------------------------------------------------------
// Events

type Event struct {
	Seq  uint64 `json:"seq"`
	T    int64  `json:"t_ms"`
	Task string `json:"task"`
	Op   string `json:"op"`
	Arg  string `json:"arg,omitempty"`
}

// ---------------------------------------------------------------------------------------
// Scheduler

type taskState int

const (
	stRunnable taskState = iota
	stBlocked
	stDone
)

type Task struct {
	id     int
	name   string
	wake   *baton
	state  taskState
	cond   func() bool
	site   string
	prio   int // for pct
	world  *World
	failed any
}

type yieldKind int

const (
	ykYield yieldKind = iota
	ykBlock
	ykDone
)

type timedEvent struct {
	at  int64
	seq uint64
	fn  func()
}

// SchedPlan is the part of a Plan that decides interleavings.
type SchedPlan struct {
	Policy string `json:"policy"`          // seq | uniform | sticky | pct | starve | list
	Seed   uint64 `json:"seed,omitempty"`  // PRNG seed for the policy
	Param  int    `json:"param,omitempty"` // sticky: percent to stay; pct: number of change points; starve: task index
	List   []int  `json:"list,omitempty"`  // explicit choices at decision points (policy list): index into sorted runnable set
}

type World struct {
	tasks    []*Task
	cur      *Task
	yieldCh  *baton
	seq      uint64
	goSeq    int // goroutines started by the code under test (verifsync.Go)
	now      int64
	timed    []timedEvent
	steps    int
	StepCap  int
	sched    SchedPlan
	rng      *Chooser
	decision int
	Choices  []int // recorded decisions (index into runnable set) where >1 runnable
	pctPts   map[int]bool
	aborting bool

	Log        []Event
	logOn      bool
	Deadlock   bool
	DeadlockAt []string
	LockWaits  int    // lock acquisitions that had to park (the lock was held by a task parked at a seam)
	Spin       string // non-empty: a task executed code under test for 20 s of wall clock without reaching a seam; the world was abandoned
	SpinSite   string
	Runaway    string // non-empty: a task was still being scheduled runawayAfterAbort steps after the world was aborted
	abortSteps int
	LockStall  string // non-empty: a task blocked on a real lock held by a parked task; the world was abandoned
	HitStepCap bool
	schedHash  hashWriter
	adjPairs   map[string]struct{}
	endTok     hbToken
	lastOpTask string
	lastOp     string
}

type hashWriter struct{ h [32]byte }

func (h *hashWriter) add(s string) {
	x := sha256.Sum256(append(h.h[:], s...))
	h.h = x
}
func (h *hashWriter) String() string { return hex.EncodeToString(h.h[:8]) }

func NewWorld(sp SchedPlan, stepCap int) *World {
	w := &World{
		yieldCh:  newBaton(),
		sched:    sp,
		rng:      NewChooser(sp.Seed, 77),
		StepCap:  stepCap,
		logOn:    true,
		adjPairs: map[string]struct{}{},
	}
	if sp.Policy == "pct" {
		w.pctPts = map[int]bool{}
		for i := 0; i < sp.Param; i++ {
			w.pctPts[w.rng.Intn(400)] = true
		}
	}
	return w
}

func (w *World) Now() int64        { return w.now }
func (w *World) Seq() uint64       { return w.seq }
func (w *World) Steps() int        { return w.steps }
func (w *World) Aborting() bool    { return w.aborting }
func (w *World) SchedHash() string { return w.schedHash.String() }
func (w *World) AdjPairs() int     { return len(w.adjPairs) }

// Logf appends an event. It never draws randomness and never reads a clock.
func (w *World) Logf(op string, format string, args ...any) uint64 {
	w.seq++
	name := "sched"
	if w.cur != nil {
		name = w.cur.name
	}
	arg := format
	if len(args) > 0 {
		arg = fmt.Sprintf(format, args...)
	}
	if w.logOn {
		w.Log = append(w.Log, Event{Seq: w.seq, T: w.now, Task: name, Op: op, Arg: arg})
	}
	w.schedHash.add(name + "|" + op + "|" + arg)
	if w.lastOpTask != "" && w.lastOpTask != name {
		if !raceMode { // (a map shared by all tasks: in the race build it would only produce reports about the simulator itself)
			w.adjPairs[w.lastOp+">"+op] = struct{}{}
		}
	}
	w.lastOpTask, w.lastOp = name, op
	return w.seq
}

// EventHash is the hash of the full event log so far (determinism self-test).
func (w *World) EventHash() string { return w.schedHash.String() }

// Spawn creates a task. It may be called before Run or from a running task.
func (w *World) Spawn(name string, fn func()) *Task {
	t := &Task{id: len(w.tasks), name: name, wake: newBaton(), world: w, prio: 0}
	if w.sched.Policy == "pct" {
		t.prio = 1000 + w.rng.Intn(1000)
	}
	w.tasks = append(w.tasks, t)
	go func() {
		t.wake.recv()
		defer func() {
			if r := recover(); r != nil {
				t.failed = fmt.Sprintf("%v\n%s", r, debug.Stack())
			}
			w.endTok.release() // whoever waits for the world to finish (Run's caller) is ordered after every task's end
			t.state = stDone
			w.yieldCh.send(byte(ykDone))
		}()
		fn()
	}()
	return t
}

// Yield hands the baton back; the task stays runnable.
func (w *World) Yield(site string) {
	t := w.cur
	if t == nil {
		return // called from outside any task (e.g. set-up code)
	}
	t.site = site
	t.state = stRunnable
	w.yieldCh.send(byte(ykYield))
	t.wake.recv()
}

// Block parks the task until cond() holds (evaluated by the scheduler) or the world aborts.
// It returns false if the world is aborting.
func (w *World) Block(site string, cond func() bool) bool {
	t := w.cur
	if t == nil {
		panic("Block outside task at " + site)
	}
	for {
		if w.aborting {
			return false
		}
		if cond() {
			return true
		}
		t.site = site
		t.cond = cond
		t.state = stBlocked
		w.yieldCh.send(byte(ykBlock))
		t.wake.recv()
		t.cond = nil
	}
}

// SleepMs parks the calling task for d simulated milliseconds (the clock jumps there when nothing else can run).
func (w *World) SleepMs(d int64) {
	target := w.now + d
	w.After(d, func() {})
	w.Block("sleep", func() bool { return w.now >= target })
}

// After schedules fn at now+d on the scheduler goroutine (no task is current while it runs).
func (w *World) After(d int64, fn func()) {
	w.seq++
	w.timed = append(w.timed, timedEvent{at: w.now + d, seq: w.seq, fn: fn})
}

func (w *World) Abort(reason string) {
	if !w.aborting {
		w.Logf("abort", "%s", reason)
		w.aborting = true
	}
}

func (w *World) runnable() []*Task {
	var rs []*Task
	for _, t := range w.tasks {
		switch t.state {
		case stRunnable:
			rs = append(rs, t)
		case stBlocked:
			if w.aborting || (t.cond != nil && t.cond()) {
				rs = append(rs, t)
			}
		}
	}
	return rs
}

func (w *World) pick(rs []*Task) *Task {
	if len(rs) == 1 {
		return rs[0]
	}
	idx := 0
	d := w.decision
	w.decision++
	switch w.sched.Policy {
	case "list":
		if d < len(w.sched.List) {
			idx = w.sched.List[d]
			if idx >= len(rs) || idx < 0 {
				idx = 0
			}
		}
	case "uniform":
		idx = w.rng.Intn(len(rs))
	case "sticky":
		idx = -1
		if w.cur != nil && w.rng.Intn(100) < w.sched.Param {
			for i, t := range rs {
				if t == w.cur {
					idx = i
				}
			}
		}
		if idx < 0 {
			idx = w.rng.Intn(len(rs))
		}
	case "pct":
		if w.pctPts[d] && w.cur != nil {
			w.cur.prio = w.rng.Intn(1000) // demote below the initial priorities
		}
		best := -1
		for i, t := range rs {
			if best < 0 || t.prio > rs[best].prio {
				best = i
			}
		}
		idx = best
	case "starve":
		// task with index Param (mod n) runs only if nothing else can
		victim := w.sched.Param % len(w.tasks)
		idx = -1
		var cands []int
		for i, t := range rs {
			if t.id != victim {
				cands = append(cands, i)
			}
		}
		if len(cands) > 0 {
			idx = cands[w.rng.Intn(len(cands))]
		} else {
			idx = 0
		}
	default: // seq: run current to block, else lowest id
		idx = 0
		if w.cur != nil {
			for i, t := range rs {
				if t == w.cur {
					idx = i
				}
			}
		}
	}
	w.Choices = append(w.Choices, idx)
	return rs[idx]
}

// Run drives the world until all tasks are done, deadlock, or the step cap.
// hbToken stands for the synchronisation a real program has where the simulator only has its scheduler: a child task
// that finishes (or publishes something) releases, the task that waited for it acquires. Only the race build gives these
// calls a meaning; they add exactly the happens-before edge a WaitGroup or channel would, and nothing else.
type hbToken struct{ _ int64 }

func (t *hbToken) release() { raceReleaseMerge(unsafe.Pointer(t)) }
func (t *hbToken) acquire() { raceAcquire(unsafe.Pointer(t)) }

// activeWorld is the world whose tasks are running (one at a time per process); the lock seams park their callers in it.
var activeWorld *World

func init() {
	simtime.Clock = func() (time.Duration, bool) {
		w := activeWorld
		if w == nil || w.cur == nil {
			return 0, false
		}
		return time.Duration(w.now) * time.Millisecond, true
	}
	verifsync.Block = func(site string, cond func() bool) bool {
		w := activeWorld
		if w == nil || w.cur == nil {
			return false
		}
		if cond == nil || cond() {
			return true // free: taking a lock is not a scheduling point of its own
		}
		w.LockWaits++
		w.Block(site, cond)
		return true
	}
}

func init() {
	verifsync.Spawn = func(fn func()) bool {
		w := activeWorld
		if w == nil || w.cur == nil {
			return false
		}
		parent := w.cur
		w.goSeq++
		name := fmt.Sprintf("%s.go%d", parent.name, w.goSeq)
		w.Logf("go", "%s", name)
		w.Spawn(name, fn)
		return true
	}
}

func (w *World) Run() {
	activeWorld = w
	verifsync.Epoch++
	defer func() { activeWorld = nil; w.endTok.acquire() }()
	for {
		alldone := true
		for _, t := range w.tasks {
			if t.state != stDone {
				alldone = false
				break
			}
		}
		if alldone {
			return
		}
		rs := w.runnable()
		if len(rs) == 0 {
			if len(w.timed) > 0 {
				sort.SliceStable(w.timed, func(i, j int) bool {
					if w.timed[i].at != w.timed[j].at {
						return w.timed[i].at < w.timed[j].at
					}
					return w.timed[i].seq < w.timed[j].seq
				})
				ev := w.timed[0]
				w.timed = w.timed[1:]
				if ev.at > w.now {
					w.now = ev.at
				}
				w.cur = nil
				ev.fn()
				continue
			}
			// quiescent with unfinished tasks: deadlock
			if !w.Deadlock {
				w.Deadlock = true
				for _, t := range w.tasks {
					if t.state != stDone {
						w.DeadlockAt = append(w.DeadlockAt, t.name+"@"+t.site)
					}
				}
				w.cur = nil
				w.Logf("deadlock", "%s", strings.Join(w.DeadlockAt, ","))
			}
			w.aborting = true
			continue
		}
		// fire timed events that are due
		if len(w.timed) > 0 {
			var rest []timedEvent
			var due []timedEvent
			for _, ev := range w.timed {
				if ev.at <= w.now {
					due = append(due, ev)
				} else {
					rest = append(rest, ev)
				}
			}
			if len(due) > 0 {
				sort.SliceStable(due, func(i, j int) bool { return due[i].seq < due[j].seq })
				w.timed = rest
				w.cur = nil
				for _, ev := range due {
					ev.fn()
				}
				continue
			}
		}
		t := w.pick(rs)
		w.steps++
		if w.steps%8 == 0 {
			w.now++ // sim time advances slowly with activity so that timed events interleave
		}
		if w.StepCap > 0 && w.steps > w.StepCap && !w.aborting {
			w.HitStepCap = true
			w.cur = nil
			w.Abort("step cap")
		}
		if w.aborting {
			// every seam fails from the abort on, so tasks unwind within a few steps; one that keeps coming back is in a
			// loop that ignores the failures of everything it calls. The world is abandoned with that task parked.
			w.abortSteps++
			if w.abortSteps > runawayAfterAbort {
				w.cur = nil
				w.Runaway = t.name + "@" + t.site
				w.HitStepCap = true
				w.Logf("runaway", "%s", w.Runaway)
				return
			}
		}
		w.cur = t
		t.state = stRunnable
		t.wake.send(0)
		if !w.awaitYield(t) {
			return
		}
	}
}

// lockStallTimeout is how long (wall clock) the scheduler waits for the running task to reach its next seam before it
// looks for the one thing that can keep a task from getting there: a real lock held by a task that is parked at a seam.
// The locks of the package under test are seams themselves (verifsync), so this is a safety net for locks elsewhere; it
// ends the run as a harness fault (no verdict) instead of letting the process die of "all goroutines are asleep".
const lockStallTimeout = 4 * time.Second

var reportedStuck = map[string]bool{}

// awaitYield waits for the running task to hand the baton back. It returns false if the task is blocked on a real lock
// (a deadlock of the code under test that no simulated step can resolve): the world is then abandoned as it stands.
func (w *World) awaitYield(t *Task) bool {
	waited := 0
	for {
		if _, ok := w.yieldCh.recvTimeout(lockStallTimeout); ok {
			return true
		}
		waited++
		{
			site := lockedGoroutineSite()
			if site == "" {
				if waited >= spinAfterTimeouts {
					if spin := spinningTaskSite(); spin != "" {
						// the running task has been executing code of the package under test for 20 s of wall clock without
						// reaching a single seam (no read, write, flush, lock, pool or clock call): a loop that no input ends
						w.cur = nil
						w.Spin = t.name + " spinning in " + spin
						w.SpinSite = spin
						SpinLeaked = true
						if !w.Deadlock {
							w.Deadlock = true
							w.DeadlockAt = append(w.DeadlockAt, t.name+"@spin:"+spin)
							w.Logf("deadlock", "%s", strings.Join(w.DeadlockAt, ","))
						}
						w.aborting = true
						return false
					}
				}
				continue // slow, not stuck
			}
			w.cur = nil
			w.LockStall = t.name + " blocked in " + site
			if !w.Deadlock {
				w.Deadlock = true
				w.DeadlockAt = append(w.DeadlockAt, t.name+"@lock:"+site)
				for _, o := range w.tasks {
					if o != t && o.state != stDone {
						w.DeadlockAt = append(w.DeadlockAt, o.name+"@"+o.site)
					}
				}
				w.Logf("deadlock", "%s", strings.Join(w.DeadlockAt, ","))
			}
			w.aborting = true
			return false
		}
	}
}

// spinAfterTimeouts x lockStallTimeout = how long a task may run without reaching a seam before its stack is examined.
const spinAfterTimeouts = 5

// runawayAfterAbort: steps granted to unwinding after an abort (step cap, deadlock) before the world is abandoned.
const runawayAfterAbort = 100000

// SpinLeaked: a world was abandoned while one of its tasks was still executing (a goroutine cannot be stopped from
// outside). The worker finishes what it has and exits; it does not start further worlds next to a spinning goroutine.
var SpinLeaked bool

// spinningTaskSite finds a task goroutine that is executing (not parked) with a frame of the package under test
// innermost of all repository frames - i.e. not inside one of the simulator's own seams - and names that function.
func spinningTaskSite() string {
	buf := make([]byte, 1<<20)
	buf = buf[:runtime.Stack(buf, true)]
	for _, g := range strings.Split(string(buf), "\n\n") {
		head, _, _ := strings.Cut(g, "\n")
		if !strings.Contains(head, "[running") && !strings.Contains(head, "[runnable") {
			continue
		}
		if !strings.Contains(g, "verifsim.(*World).Spawn") {
			continue
		}
		for _, line := range strings.Split(g, "\n") {
			if strings.HasPrefix(line, "connectrpc.com/vanguard/internal/verifsim") {
				break // the innermost repository frame is the simulator's: the harness is slow, the code under test is not looping
			}
			if strings.HasPrefix(line, "connectrpc.com/vanguard.") {
				fn, _, _ := strings.Cut(line, "(0x")
				if i := strings.LastIndex(fn, "({"); i > 0 {
					fn = fn[:i]
				}
				return strings.TrimPrefix(fn, "connectrpc.com/vanguard.")
			}
		}
	}
	return ""
}

// lockedGoroutineSite finds a task goroutine parked inside sync.Mutex/RWMutex.Lock and names the locking call site.
func lockedGoroutineSite() string {
	buf := make([]byte, 1<<20)
	buf = buf[:runtime.Stack(buf, true)]
	for _, g := range strings.Split(string(buf), "\n\n") {
		head, _, _ := strings.Cut(g, "\n")
		if !strings.Contains(head, "[sync.Mutex.Lock") && !strings.Contains(head, "[sync.RWMutex") {
			continue
		}
		if !strings.Contains(g, "verifsim.(*World).Spawn") {
			continue
		}
		id, _, _ := strings.Cut(strings.TrimPrefix(head, "goroutine "), " ")
		if reportedStuck[id] {
			continue // left over from an earlier abandoned world
		}
		reportedStuck[id] = true
		for _, line := range strings.Split(g, "\n") {
			if strings.HasPrefix(line, "connectrpc.com/vanguard.") {
				fn, _, _ := strings.Cut(line, "(0x")
				if i := strings.LastIndex(fn, "({"); i > 0 {
					fn = fn[:i]
				}
				return strings.TrimPrefix(fn, "connectrpc.com/vanguard.")
			}
		}
		return "unknown site"
	}
	return ""
}

// TaskFailures returns panics that escaped task bodies (harness bugs or unrecovered SUT panics).
func (w *World) TaskFailures() []string {
	var out []string
	for _, t := range w.tasks {
		if t.failed != nil {
			out = append(out, fmt.Sprintf("%s: %v", t.name, t.failed))
		}
	}
	return out
}
