//go:build race

package verifsim

import (
	"runtime"
	"time"
)

// In the race-detector build the baton must not create a happens-before edge between tasks, or the detector would see
// every pair of tasks as synchronised and report nothing. Every Go synchronisation primitive (channels, sync, sync/atomic)
// creates such an edge. What does not: plain loads and stores from code the detector does not instrument - this package
// is compiled without -race instrumentation (see vsim) - polled with runtime.Gosched in between. The race workers run
// with GOMAXPROCS=1, so "polling" is a trip round the run queue (microseconds), and a store is seen by the next goroutine
// that runs. (A first version passed a byte through a pipe with raw system calls: same invisibility, 250 us per step.)
// Verified by probe: two strictly alternating tasks incrementing a shared counter are reported as a race under such a
// baton and are not when the counter is under a mutex.
type baton struct {
	has    int32
	val    int32
	closed int32
}

func newBaton() *baton { return &baton{} }

func (b *baton) send(x byte) {
	for b.has != 0 {
		if b.closed != 0 {
			select {}
		}
		runtime.Gosched()
	}
	b.val = int32(x)
	b.has = 1
}

func (b *baton) recv() byte {
	for b.has == 0 {
		if b.closed != 0 {
			select {} // the world was abandoned: park for good instead of spinning
		}
		runtime.Gosched()
	}
	x := byte(b.val)
	b.has = 0
	return x
}

// recvTimeout: the race build has no watchdog; lock waits of the package under test are seams in this build as well, so
// the situation the watchdog exists for does not arise there.
func (b *baton) recvTimeout(time.Duration) (byte, bool) { return b.recv(), true }

func (b *baton) close() { b.closed = 1 }

const raceMode = true
