//go:build race

package verifsim

import (
	"syscall"
	"time"
	"unsafe"
)

// In the race-detector build the baton must not create a happens-before edge between tasks, or the detector would see
// every pair of tasks as synchronised and report nothing. A channel (like every Go synchronisation primitive) creates
// such an edge; a byte through a pipe, moved with raw system calls from code the detector does not instrument (this
// package is compiled without -race instrumentation), does not. Verified by probe: two strictly alternating tasks that
// increment a shared counter are reported as a race under this baton, and are not when the counter is under a mutex.
type baton struct{ r, w int }

func newBaton() *baton {
	var fds [2]int
	if err := syscall.Pipe2(fds[:], syscall.O_CLOEXEC); err != nil {
		panic("pipe: " + err.Error())
	}
	return &baton{r: fds[0], w: fds[1]}
}

func (b *baton) send(x byte) {
	buf := [1]byte{x}
	for {
		n, _, e := syscall.Syscall(syscall.SYS_WRITE, uintptr(b.w), uintptr(unsafe.Pointer(&buf[0])), 1)
		if e == syscall.EINTR || (e == 0 && n == 0) {
			continue
		}
		if e != 0 {
			panic("baton write: " + e.Error())
		}
		return
	}
}

func (b *baton) recv() byte {
	var buf [1]byte
	for {
		n, _, e := syscall.Syscall(syscall.SYS_READ, uintptr(b.r), uintptr(unsafe.Pointer(&buf[0])), 1)
		if e == syscall.EINTR {
			continue
		}
		if e != 0 {
			panic("baton read: " + e.Error())
		}
		if n == 0 {
			// write end closed: the world is gone; park forever
			select {}
		}
		return buf[0]
	}
}

// recvTimeout: the race build has no watchdog (a blocking read cannot time out without poll); lock waits of the package
// under test are seams in this build as well, so the situation the watchdog exists for does not arise there.
func (b *baton) recvTimeout(time.Duration) (byte, bool) { return b.recv(), true }

func (b *baton) close() {
	syscall.Close(b.r)
	syscall.Close(b.w)
}

const raceMode = true
