package verifsim

import (
	"fmt"
	"strings"
)

// C11: no input from client or backend can crash or wedge the transcoder.

var hostileCTs = []string{"", "application/", "application/grpc", "application/grpc+", "application/grpc+proto", "application/grpc+json", "application/grpc-web", "application/grpc-web+",
	"application/grpc-web+proto", "application/grpc-web-text", "application/connect+", "application/connect+proto", "application/connect+json", "application/json", "application/proto",
	"application/json; charset=utf-8", "application/json;charset=latin1", "text/plain", "application/x-www-form-urlencoded", "multipart/form-data; boundary=x", "application/octet-stream",
	"APPLICATION/GRPC", "application/grpc;q=1", "application/alt", "application/unknown", "*/*", "application/connect+proto; x=y", "image/png"}

var hostilePaths = []string{"/", "//", "/sim.v1.SimService/Unary", "/sim.v1.SimService/Bidi", "/sim.v1.SimService/ServerStream", "/sim.v1.SimService/UnaryNSE", "/sim.v1.SimService/Nope",
	"/sim.v1.SimService/", "/sim.v1.SimService", "/vanguard.test.v1.LibraryService/GetBook", "/vanguard.test.v1.ContentService/Upload", "/v1/shelves", "/v1/shelves/1/books/2", "/v1/shelves/1/books",
	"/v1/shelves/%2F/books/%25", "/v1/shelves/a:b/books/c:d", "/v1/shelves/1/books/2:", "/v2/shelves/1/books:search", "/v2/checkouts/99999999999999999999", "/v2/checkouts/abc", "/v2/checkouts/1",
	"/x/y/z:upload", "/x:download", "/:download", "/sim/v1/all", "/p/v1/query", "/p/v1/str/%00", "/p/v1/multi/a/b/c", "/p/v1/multi/", "/p/v1/nested/1e400/x/a/b/b", "/p/v1/bytes/!!!/1/ENUM_VALUE",
	"/p/v1/del/1/not-a-time", "/p/v1/scalarbody/maybe:verb", "/%", "/%zz", "/a%20b", "/..", "/../../etc/passwd", "/v1/shelves/" + strings.Repeat("a", 3000), "/v1/" + strings.Repeat("x/", 400)}

func genHostileClient(c *Chooser) ClientPlan {
	cp := ClientPlan{Form: FormRaw, HTTP: Pick(c, 1, 2), Service: "sim"}
	cp.HTTPMethod = Pick(c, "POST", "POST", "GET", "GET", "PUT", "DELETE", "PATCH", "OPTIONS", "HEAD", "CONNECT", "TRACE", "PROPFIND", "post", "X")
	cp.Path = hostilePaths[c.Intn(len(hostilePaths))]
	switch c.Intn(6) {
	case 0:
		cp.RawQuery = "connect=v1&encoding=proto&message=&base64=1"
	case 1:
		cp.RawQuery = "connect=v1&encoding=json&message=%7B%7D&compression=gzip"
	case 2:
		cp.RawQuery = Pick(c, "a=b", "a=b&a=c", "%zz", "=", "&&&", "message=%ff", "connect=v1", "connect=v1&base64=2&encoding=proto", "connect=v1&encoding=&message=x", "page_size=abc", "x.y.z=1", "book.name=q", strings.Repeat("k=v&", 300))
	}
	ct := hostileCTs[c.Intn(len(hostileCTs))]
	if ct != "" {
		cp.ExtraHdrs = append(cp.ExtraHdrs, [2]string{"Content-Type", ct})
	}
	if c.Prob(0.1) {
		cp.ExtraHdrs = append(cp.ExtraHdrs, [2]string{"Content-Type", hostileCTs[c.Intn(len(hostileCTs))]})
	}
	ctl := [][2]string{{"Connect-Protocol-Version", "1"}, {"Connect-Protocol-Version", "2"}, {"Connect-Protocol-Version", ""}, {"Connect-Timeout-Ms", "abc"}, {"Connect-Timeout-Ms", "-5"},
		{"Connect-Timeout-Ms", "99999999999999999999"}, {"Grpc-Timeout", "9H"}, {"Grpc-Timeout", "H"}, {"Grpc-Timeout", "1"}, {"Grpc-Timeout", "-1S"}, {"Grpc-Timeout", "123456789m"}, {"Grpc-Timeout", "1x"},
		{"X-Server-Timeout", "nan"}, {"X-Server-Timeout", "1e400"}, {"X-Server-Timeout", "-1"}, {"Te", "trailers"}, {"Te", "gzip"}, {"Grpc-Encoding", "gzip"}, {"Grpc-Encoding", "snappy"}, {"Grpc-Encoding", "identity"},
		{"Grpc-Accept-Encoding", ",,,"}, {"Content-Encoding", "gzip"}, {"Content-Encoding", "br"}, {"Content-Encoding", "identity"}, {"Connect-Content-Encoding", "deflate"}, {"Connect-Content-Encoding", "zz"},
		{"Accept-Encoding", "gzip;q=0.5, *"}, {"Connect-Accept-Encoding", "gzip"}, {"Trailer", "X"}, {"Expect", "100-continue"}, {"Grpc-Status", "0"}, {"Trailer-X", "y"}}
	for i, n := 0, c.Intn(4); i < n; i++ {
		cp.ExtraHdrs = append(cp.ExtraHdrs, ctl[c.Intn(len(ctl))])
	}
	cp.Headers = genHeaderSet(c, c.Intn(2))
	switch c.Intn(7) {
	case 0:
		// no body at all
	case 1:
		cp.RawBody, cp.HasRawBody = []byte{}, true
	case 2:
		cp.RawBody, cp.HasRawBody = c.Bytes(c.Range(1, 64)), true
	case 3:
		cp.RawBody, cp.HasRawBody = append(envelope(byte(c.Intn(4)), []byte{0x18, 0x01}), c.Bytes(c.Intn(12))...), true
	case 4:
		cp.RawBody, cp.HasRawBody = []byte(Pick(c, "{}", "{", "[]", "null", "\"x\"", "{\"string_value\":1}", "{\"a\":{\"a\":{\"a\":{}}}}", "{\"book\":{}}", strings.Repeat("[", 2000))), true
	case 5:
		cp.RawBody, cp.HasRawBody = envelope(byte(c.Intn(256)), c.Bytes(c.Intn(40))), true
		cp.RawBody[1+c.Intn(4)] = byte(c.Intn(256)) // arbitrary declared length
	default:
		cp.RawBody, cp.HasRawBody = refCompress("gzip", c.Bytes(c.Intn(30))), true
	}
	cp.DeclareCL = Pick(c, "", "", "none", "exact", "+3", "-1", "=0")
	cp.Deliveries = genSegSizes(c)
	return cp
}

func genTransportFaults(c *Chooser, cp *ClientPlan) {
	switch c.Intn(8) {
	case 0:
		cp.Faults = append(cp.Faults, Fault{Kind: "cut-eof", At: c.Intn(40)})
	case 1:
		cp.Faults = append(cp.Faults, Fault{Kind: "cut-err", At: c.Intn(40)})
	case 2:
		cp.WriterFailAfter = c.Range(1, 60)
	case 3:
		cp.CancelAtStep = c.Range(1, 60)
	}
}

func c11Oracle(p *Plan) *Verdict {
	v := &Verdict{}
	r := Run(p)
	v.absorb(r)
	if r.World != nil {
		v.Trace = r.World.Log
	}
	facts := map[string]string{"side": p.Note}
	v.Class = p.Note
	if r.BuildErr != "" {
		v.Class = "builderr"
		return v
	}
	for i, st := range r.RPCs {
		if st.Rejected != "" {
			v.probe("rejected-by-http-stack")
			continue
		}
		countFaults(v, &p.RPCs[i], st)
		v.Nontrivial = true
		cls := "rejected"
		if len(st.Backend) > 0 {
			cls = "dispatched"
			v.probe("dispatched")
		}
		v.Class = fmt.Sprintf("%s/%s/%s/%s", p.Note, p.RPCs[i].Client.Form, cls, p.RPCs[i].Backend.Resp.noteKind())
		if st.ServePanic != "" {
			f := copyFacts(facts)
			f["site"] = firstSite(st.ServePanicStack)
			v.violate("panic", f, "ServeHTTP panicked: %s at %s", st.ServePanic, st.ServePanicStack)
			continue
		}
		passthrough := false
		if p.RPCs[i].Client.Form != FormRaw {
			passthrough = scenarioFacts(p, i)["path"] == "passthrough"
		} else if len(st.Backend) == 1 && st.Backend[0].Service != "<unknown-handler>" {
			// a raw request that a handler received exactly as the client sent it was passed through
			b := st.Backend[0]
			passthrough = b.Header.Get("Content-Type") == st.req.Header.Get("Content-Type") && b.Path == st.req.URL.Path
		}
		if len(st.Backend) == 1 && st.Backend[0].Service == "<unknown-handler>" {
			passthrough = true
		}
		if st.rw != nil && !passthrough { // on pass-through the handler talks to the real writer directly (C13)
			if st.rw.Superfluous > 0 {
				v.violate("second-response-head", facts, "WriteHeader was called %d more times on the underlying writer after the response head was written", st.rw.Superfluous)
			}
			for _, prob := range st.rw.Problems {
				f := copyFacts(facts)
				f["kind"] = problemClass(prob)
				v.violate("unframable-body", f, "%s", prob)
			}
		}
		if st.rw != nil && !passthrough && p.RPCs[i].Backend.LateIO {
			// "writes after completion": a goroutine the handler left behind uses the writer it was given after ServeHTTP
			// returned. What it does must stop at the transcoder's wrapper: a real HTTP/2 server panics on any call made on its
			// writer after the handler finished (outside every recover), an HTTP/1 server's buffers already serve the next request.
			for _, l := range st.rw.Late {
				f := copyFacts(facts)
				f["op"] = strings.SplitN(l, "@", 2)[0]
				v.violate("late-call-reaches-writer", f, "a handler goroutine that outlived ServeHTTP reached the underlying writer through the transcoder's wrapper: %v", st.rw.Late)
				break
			}
		}
		if len(st.Backend) > 1 {
			v.violate("double-dispatch", facts, "%d handler invocations for one request", len(st.Backend))
		}
	}
	if r.Deadlock || r.StepCap {
		f := copyFacts(facts)
		where := strings.Join(r.World.DeadlockAt, ",")
		f["where"] = reDigits.ReplaceAllString(where, "N")
		v.violate("hang", f, "the world did not terminate although both peers had stopped: deadlock=%v stepcap=%v parked=%v", r.Deadlock, r.StepCap, r.World.DeadlockAt)
	}
	return v
}

func (rp *RespPlan) noteKind() string {
	switch {
	case rp.RawBody != nil:
		return "rawbody"
	case rp.BareStatus != 0:
		return "bare"
	case rp.CutAt > 0:
		return "cut"
	case rp.OmitEnd:
		return "omitend"
	case rp.EndRaw != nil:
		return "endraw"
	case rp.GRPCStatusText != "":
		return "statustext"
	case rp.DeclareCL != "":
		return "cl"
	case rp.ContentType != "":
		return "ct"
	}
	return "plain"
}

func init() {
	register(&Check{
		ID:    "C11",
		Level: "exploration",
		Rule: "three seeded classes: (client) raw requests with arbitrary method, path (incl. invalid escapes, huge, REST and RPC paths), query, content-type, control-header garbage and body bytes (random, truncated envelopes, arbitrary declared lengths, JSON bombs) " +
			"against a transcoder with REST-bound, RPC-only and dynamic services, with and without an unknown-endpoint handler; (backend) well-formed clients against backends that break their protocol in every scripted way " +
			"(any status, garbage headers, numeric grpc-status of any size, random body, any flag byte and length, wrong Content-Length, early return, panic before/after headers/mid-body, I/O after return); (both) the two combined with transport faults " +
			"(cut, connection error, client gone, context cancelled); in a fifth of all runs the k-th codec or (de)compressor call made for the RPC fails. oracle: no panic escapes ServeHTTP, quiescence-based termination, at most one response head, body consistent with declared Content-Length and status. " +
			"distinct = (class, form, dispatched?, backend misbehaviour kind, schedule hash); non-trivial = the request reached ServeHTTP",
		Gen: func(c *Chooser, tier string) *Plan {
			var p *Plan
			kind := Pick(c, "client", "client", "backend", "backend", "both")
			if kind == "client" {
				cfg := ConfigPlan{Services: []ServicePlan{genService(c, "sim"), {Schema: "library", MaxMsg: 1 << 20}, {Schema: "content", MaxMsg: 1 << 20}, {Schema: "sim2", MaxMsg: 1 << 20, Protocols: []string{Pick(c, ProtoConnect, ProtoGRPC, ProtoREST)}}}, UnknownHandler: c.Bool()}
				cp := genHostileClient(c)
				p = &Plan{Config: cfg, RPCs: []RPCPlan{{Client: cp, Backend: BackendPlan{Resp: okResp(1)}}}, Sched: genSched(c), Pool: genPool(c)}
			} else {
				p = genScenario(c, ScenOpts{MaxMsgs: 3, MaxBytes: 80, Segment: true})
				if p == nil {
					return nil
				}
				bp := &p.RPCs[0].Backend
				genBackendMisbehaviour(c, &bp.Resp)
				if c.Prob(0.25) {
					bp.Resp.ExtraHdrs = append(bp.Resp.ExtraHdrs, Pick(c, [2]string{"Content-Length", "-5"}, [2]string{"Content-Length", "abc"}, [2]string{"Content-Length", "99999999999999999999"},
						[2]string{"Grpc-Status", "18446744073709551616"}, [2]string{"Grpc-Status-Details-Bin", "!!!"}, [2]string{"Grpc-Message", "%zz"}, [2]string{"Trailer", ",,,"},
						[2]string{"Content-Encoding", "br"}, [2]string{"Grpc-Encoding", "snappy"}, [2]string{"Connect-Content-Encoding", "x"}, [2]string{"Content-Type", ""}))
				}
				if c.Prob(0.15) {
					bp.Resp.RawStatus = Pick(c, 100, 101, 199, 204, 304, 301, 600, 999)
				}
				if c.Prob(0.15) {
					bp.PanicAt = Pick(c, "before-headers", "after-headers", "mid-body")
				}
				bp.LateIO = c.Prob(0.2)
				bp.Mode = Pick(c, "", "", "respond-first", "no-read", "duplex")
				bp.ReadAfter = c.Bool()
				if kind == "both" {
					genTransportFaults(c, &p.RPCs[0].Client)
					if c.Bool() {
						rc := &p.RPCs[0].Client
						rc.ExtraHdrs = append(rc.ExtraHdrs, [2]string{"Grpc-Timeout", "1x"})
					}
				}
			}
			if c.Prob(0.2) {
				// the library under the transcoder fails: the k-th codec or (de)compressor call of this RPC returns an error
				p.RPCs[0].LibFaults = []Fault{{Kind: Pick(c, "marshal", "unmarshal", "comp.write", "comp.close", "decomp.reset", "decomp.read", "decomp.close"), At: c.Range(1, 4)}}
			}
			p.Note = kind
			p.StepCap = 60000
			return p
		},
		Oracle:      c11Oracle,
		Components:  stdComponents,
		Assumptions: []string{"requests that net/http's own parser (http.ReadRequest) refuses never reach a handler and are not counted", "a panic raised on purpose by the scripted backend may propagate (net/http recovers it); any other panic is the transcoder's"},
	})
}

// countFaults records which injected faults actually fired in this run.
func countFaults(v *Verdict, rp *RPCPlan, st *rpcState) {
	if st.CutAt >= 0 {
		v.fault("request-" + st.CutKind)
	}
	if rp.Client.WriterFailAfter > 0 && st.rw != nil && st.rw.Written >= int64(rp.Client.WriterFailAfter) {
		v.fault("client-gone-mid-response")
	}
	if rp.Client.CancelAtStep > 0 && st.ctx != nil && st.ctx.Err() != nil {
		v.fault("context-cancelled")
	}
	for _, b := range st.Backend {
		if b.Panicked {
			v.fault("backend-panic-" + rp.Backend.PanicAt)
		}
		if len(b.WriteErrs) > 0 {
			v.fault("backend-write-rejected")
		}
		if b.ReadErr != "" {
			v.fault("backend-read-error")
		}
	}
	if len(st.Backend) > 0 {
		if k := rp.Backend.Resp.noteKind(); k != "plain" {
			v.fault("backend-" + k)
		}
		if rp.Backend.LateIO {
			v.fault("backend-io-after-return")
		}
	}
	if rp.Client.Deliveries != nil {
		v.fault("delivery-segmentation")
	}
}
