package verifsim

import (
	"encoding/base64"
	"fmt"
	"math/big"
	"net/url"
	"strings"
	"sync"

	"google.golang.org/genproto/googleapis/api/annotations"
	"google.golang.org/protobuf/proto"
	"google.golang.org/protobuf/reflect/protodesc"
	"google.golang.org/protobuf/reflect/protoreflect"
	"google.golang.org/protobuf/reflect/protoregistry"
	"google.golang.org/protobuf/types/descriptorpb"
	"google.golang.org/protobuf/types/dynamicpb"

	_ "connectrpc.com/vanguard/internal/gen/vanguard/test/v1"
	_ "google.golang.org/genproto/googleapis/rpc/errdetails" // registers google.rpc.RetryInfo & co. (typed error details)
)

// Schema is what the scripted peers know about a service.
type Schema struct {
	Name    string
	Service protoreflect.ServiceDescriptor
	byPath  map[string]protoreflect.MethodDescriptor
	byName  map[string]protoreflect.MethodDescriptor
	// REST decoding/encoding against the reference binder (installed by restref.go)
	restDecode     func(obs *BackendObs, payload []byte) (proto.Message, string, string)
	restEncodeResp func(obs *BackendObs, data []byte) ([]byte, string)
}

func newSchema(name string, sd protoreflect.ServiceDescriptor) *Schema {
	s := &Schema{Name: name, Service: sd, byPath: map[string]protoreflect.MethodDescriptor{}, byName: map[string]protoreflect.MethodDescriptor{}}
	ms := sd.Methods()
	for i := 0; i < ms.Len(); i++ {
		m := ms.Get(i)
		s.byPath["/"+string(sd.FullName())+"/"+string(m.Name())] = m
		s.byName[string(m.FullName())] = m
	}
	return s
}

func (s *Schema) methodByPath(p string) protoreflect.MethodDescriptor { return s.byPath[p] }
func (s *Schema) methodByFullName(n string) protoreflect.MethodDescriptor {
	return s.byName[n]
}
func (s *Schema) method(name string) protoreflect.MethodDescriptor {
	return s.Service.Methods().ByName(protoreflect.Name(name))
}
func (s *Schema) methodPath(name string) string {
	return "/" + string(s.Service.FullName()) + "/" + name
}

func (s *Schema) newMessage(md protoreflect.MessageDescriptor) proto.Message {
	return newMessageFor(md)
}

func newMessageFor(md protoreflect.MessageDescriptor) proto.Message {
	if mt, err := protoregistry.GlobalTypes.FindMessageByName(md.FullName()); err == nil {
		return mt.New().Interface()
	}
	return dynamicpb.NewMessage(md)
}

var (
	schemaOnce sync.Once
	schemas    map[string]*Schema
	simFile    protoreflect.FileDescriptor
)

func getSchema(name string) *Schema {
	schemaOnce.Do(buildSchemas)
	return schemas[name]
}

func mustService(full string) protoreflect.ServiceDescriptor {
	d, err := protoregistry.GlobalFiles.FindDescriptorByName(protoreflect.FullName(full))
	if err != nil {
		panic(err)
	}
	return d.(protoreflect.ServiceDescriptor)
}

func buildSchemas() {
	schemas = map[string]*Schema{}
	schemas["library"] = newSchema("library", mustService("vanguard.test.v1.LibraryService"))
	schemas["content"] = newSchema("content", mustService("vanguard.test.v1.ContentService"))
	simFile = buildSimFile()
	schemas["sim"] = newSchema("sim", simFile.Services().ByName("SimService"))
	schemas["sim2"] = newSchema("sim2", simFile.Services().ByName("ParamService"))
	schemas["bare"] = newSchema("bare", simFile.Services().ByName("BareService"))
	schemas["chain"] = newSchema("chain", buildChainFiles().Services().ByName("ChainService"))
	installRESTRefs()
}

func httpRuleOpt(rule *annotations.HttpRule, idem descriptorpb.MethodOptions_IdempotencyLevel) *descriptorpb.MethodOptions {
	opts := &descriptorpb.MethodOptions{}
	if idem != descriptorpb.MethodOptions_IDEMPOTENCY_UNKNOWN {
		opts.IdempotencyLevel = idem.Enum()
	}
	if rule != nil {
		proto.SetExtension(opts, annotations.E_Http, rule)
	}
	return opts
}

// buildSimFile builds sim/v1/sim.proto at run time: all four stream shapes over AllTypes, and a
// REST-bound service over ParameterValues.
func buildSimFile() protoreflect.FileDescriptor {
	at := ".vanguard.test.v1.AllTypes"
	pv := ".vanguard.test.v1.ParameterValues"
	method := func(name, in, out string, cs, ss bool, opts *descriptorpb.MethodOptions) *descriptorpb.MethodDescriptorProto {
		m := &descriptorpb.MethodDescriptorProto{Name: proto.String(name), InputType: proto.String(in), OutputType: proto.String(out), Options: opts}
		if cs {
			m.ClientStreaming = proto.Bool(true)
		}
		if ss {
			m.ServerStreaming = proto.Bool(true)
		}
		return m
	}
	get := func(p string) *annotations.HttpRule {
		return &annotations.HttpRule{Pattern: &annotations.HttpRule_Get{Get: p}}
	}
	post := func(p, body string) *annotations.HttpRule {
		return &annotations.HttpRule{Pattern: &annotations.HttpRule_Post{Post: p}, Body: body}
	}
	fdp := &descriptorpb.FileDescriptorProto{
		Name:       proto.String("sim/v1/sim.proto"),
		Package:    proto.String("sim.v1"),
		Syntax:     proto.String("proto3"),
		Dependency: []string{"vanguard/test/v1/test.proto", "google/api/annotations.proto", "google/api/httpbody.proto"},
		MessageType: []*descriptorpb.DescriptorProto{{
			// an upload: raw bytes (HttpBody) in the body, everything else in the path and the query
			Name: proto.String("UploadRequest"),
			Field: []*descriptorpb.FieldDescriptorProto{
				{Name: proto.String("name"), Number: proto.Int32(1), Type: descriptorpb.FieldDescriptorProto_TYPE_STRING.Enum(), Label: descriptorpb.FieldDescriptorProto_LABEL_OPTIONAL.Enum(), JsonName: proto.String("name")},
				{Name: proto.String("revision"), Number: proto.Int32(2), Type: descriptorpb.FieldDescriptorProto_TYPE_INT32.Enum(), Label: descriptorpb.FieldDescriptorProto_LABEL_OPTIONAL.Enum(), JsonName: proto.String("revision")},
				{Name: proto.String("file"), Number: proto.Int32(3), Type: descriptorpb.FieldDescriptorProto_TYPE_MESSAGE.Enum(), TypeName: proto.String(".google.api.HttpBody"), Label: descriptorpb.FieldDescriptorProto_LABEL_OPTIONAL.Enum(), JsonName: proto.String("file")},
				{Name: proto.String("tags"), Number: proto.Int32(4), Type: descriptorpb.FieldDescriptorProto_TYPE_STRING.Enum(), Label: descriptorpb.FieldDescriptorProto_LABEL_REPEATED.Enum(), JsonName: proto.String("tags")},
			},
		}},
		Service: []*descriptorpb.ServiceDescriptorProto{
			{
				Name: proto.String("SimService"),
				Method: []*descriptorpb.MethodDescriptorProto{
					method("Unary", at, at, false, false, nil),
					method("UnaryNSE", at, at, false, false, httpRuleOpt(nil, descriptorpb.MethodOptions_NO_SIDE_EFFECTS)),
					method("UnaryIdem", at, at, false, false, httpRuleOpt(nil, descriptorpb.MethodOptions_IDEMPOTENT)),
					method("ClientStream", at, at, true, false, nil),
					method("ServerStream", at, at, false, true, nil),
					method("Bidi", at, at, true, true, nil),
					method("RestAll", at, at, false, false, httpRuleOpt(post("/sim/v1/all", "*"), 0)),
					method("RestAllNSE", at, at, false, false, httpRuleOpt(post("/sim/v1/allnse", "*"), descriptorpb.MethodOptions_NO_SIDE_EFFECTS)),
					// a binding without a body: path variable plus query parameters (the request body of an RPC client is drained, not forwarded)
					method("RestGet", at, at, false, false, httpRuleOpt(get("/sim/v1/get/{string_value}"), 0)),
				},
			},
			{
				Name: proto.String("ParamService"),
				Method: []*descriptorpb.MethodDescriptorProto{
					method("Query", pv, pv, false, false, httpRuleOpt(get("/p/v1/query"), descriptorpb.MethodOptions_NO_SIDE_EFFECTS)),
					method("PathStr", pv, pv, false, false, httpRuleOpt(get("/p/v1/str/{string_value}"), 0)),
					method("PathMulti", pv, pv, false, false, httpRuleOpt(get("/p/v1/multi/{string_value=**}"), 0)),
					method("PathNested", pv, pv, false, false, httpRuleOpt(get("/p/v1/nested/{nested.double_value}/x/{recursive.string_value=a/*/b}"), 0)),
					method("BodyStar", pv, pv, false, false, httpRuleOpt(post("/p/v1/body/{string_value}", "*"), 0)),
					method("BodyNested", pv, pv, false, false, httpRuleOpt(&annotations.HttpRule{Pattern: &annotations.HttpRule_Post{Post: "/p/v1/nestedbody/{int32_value}"}, Body: "nested", ResponseBody: "nested"}, 0)),
					method("BodyList", pv, pv, false, false, httpRuleOpt(&annotations.HttpRule{Pattern: &annotations.HttpRule_Put{Put: "/p/v1/listbody"}, Body: "double_list", ResponseBody: "double_list"}, 0)),
					method("BodyScalar", pv, pv, false, false, httpRuleOpt(&annotations.HttpRule{Pattern: &annotations.HttpRule_Patch{Patch: "/p/v1/scalarbody/{bool_value}:verb"}, Body: "string_value", ResponseBody: "string_value"}, 0)),
					method("Bytes", pv, pv, false, false, httpRuleOpt(get("/p/v1/bytes/{bytes_value}/{int64_value}/{enum_value}"), 0)),
					method("Del", pv, pv, false, false, httpRuleOpt(&annotations.HttpRule{Pattern: &annotations.HttpRule_Delete{Delete: "/p/v1/del/{uint64_value}/{timestamp}"}}, 0)),
					method("Plain", pv, pv, false, false, nil),
					// the whole request (and response) is a google.api.HttpBody: raw bytes with their own content type
					method("RawBody", ".google.api.HttpBody", ".google.api.HttpBody", false, false, httpRuleOpt(post("/p/v1/raw", "*"), 0)),
					method("Upload", ".sim.v1.UploadRequest", pv, false, false, httpRuleOpt(post("/p/v1/upload/{name}", "file"), 0)),
				},
			},
			{
				// no annotations at all; one method name is a prefix of another
				Name: proto.String("BareService"),
				Method: []*descriptorpb.MethodDescriptorProto{
					method("Ping", pv, pv, false, false, nil),
					method("PingAll", pv, pv, false, false, nil),
					method("Other", pv, pv, false, false, nil),
				},
			},
		},
	}
	fd, err := protodesc.NewFile(fdp, protoregistry.GlobalFiles)
	if err != nil {
		panic(fmt.Sprintf("sim.proto: %v", err))
	}
	return fd
}

// ---------------------------------------------------------------------------------------
// reference helpers that several oracles need

// refTimeoutNanos parses a timeout header of the given kind into nanoseconds (arbitrary precision).
// ok=false means malformed by that protocol's grammar.
func refTimeoutNanos(header, v string) (*big.Rat, bool) {
	switch header {
	case "Grpc-Timeout":
		if len(v) < 2 || len(v) > 9 {
			return nil, false
		}
		digits, unit := v[:len(v)-1], v[len(v)-1]
		for _, c := range digits {
			if c < '0' || c > '9' {
				return nil, false
			}
		}
		n, _ := new(big.Int).SetString(digits, 10)
		var mul int64
		switch unit {
		case 'H':
			mul = 3600e9
		case 'M':
			mul = 60e9
		case 'S':
			mul = 1e9
		case 'm':
			mul = 1e6
		case 'u':
			mul = 1e3
		case 'n':
			mul = 1
		default:
			return nil, false
		}
		return new(big.Rat).SetInt(n.Mul(n, big.NewInt(mul))), true
	case "Connect-Timeout-Ms":
		if len(v) < 1 || len(v) > 10 {
			return nil, false
		}
		for _, c := range v {
			if c < '0' || c > '9' {
				return nil, false
			}
		}
		n, _ := new(big.Int).SetString(v, 10)
		return new(big.Rat).SetInt(n.Mul(n, big.NewInt(1e6))), true
	case "X-Server-Timeout":
		// non-negative decimal number of seconds
		if v == "" {
			return nil, false
		}
		seenDigit, seenDot := false, false
		for i, c := range v {
			switch {
			case c >= '0' && c <= '9':
				seenDigit = true
			case c == '.' && !seenDot:
				seenDot = true
			case (c == 'e' || c == 'E') && seenDigit:
				// exponent form: accept if the rest is an optionally signed integer
				rest := v[i+1:]
				rest = strings.TrimPrefix(strings.TrimPrefix(rest, "+"), "-")
				if rest == "" {
					return nil, false
				}
				for _, d := range rest {
					if d < '0' || d > '9' {
						return nil, false
					}
				}
				r, ok := new(big.Rat).SetString(v)
				if !ok {
					return nil, false
				}
				return r.Mul(r, big.NewRat(1e9, 1)), true
			default:
				return nil, false
			}
		}
		if !seenDigit {
			return nil, false
		}
		r, ok := new(big.Rat).SetString(v)
		if !ok {
			return nil, false
		}
		return r.Mul(r, big.NewRat(1e9, 1)), true
	}
	return nil, false
}

// refConnectGetMessage extracts the (still compressed) message bytes of a Connect GET query.
func refConnectGetMessage(rawQuery string) ([]byte, string) {
	q, err := url.ParseQuery(rawQuery)
	if err != nil {
		return nil, "query does not parse: " + err.Error()
	}
	msg := q.Get("message")
	switch q.Get("base64") {
	case "", "0":
		return []byte(msg), ""
	case "1":
		b, err := base64.RawURLEncoding.DecodeString(strings.TrimRight(msg, "="))
		if err != nil {
			return nil, "message is not URL-safe base64"
		}
		return b, ""
	}
	return nil, "base64 parameter has value " + q.Get("base64")
}

// chainFiles holds a schema that exists only at run time and only in a registry of its own: chain/a.proto (the service)
// imports chain/b.proto, which imports chain/c.proto. The type chain.c.Detail is reachable from the service's file only
// through an import of an import, and no global registry knows it.
var chainFiles *protoregistry.Files

type chainResolver struct{ own *protoregistry.Files }

func (r chainResolver) FindFileByPath(p string) (protoreflect.FileDescriptor, error) {
	if fd, err := r.own.FindFileByPath(p); err == nil {
		return fd, nil
	}
	return protoregistry.GlobalFiles.FindFileByPath(p)
}
func (r chainResolver) FindDescriptorByName(n protoreflect.FullName) (protoreflect.Descriptor, error) {
	if d, err := r.own.FindDescriptorByName(n); err == nil {
		return d, nil
	}
	return protoregistry.GlobalFiles.FindDescriptorByName(n)
}

func buildChainFiles() protoreflect.FileDescriptor {
	chainFiles = &protoregistry.Files{}
	str := func(name string, num int32) *descriptorpb.FieldDescriptorProto {
		return &descriptorpb.FieldDescriptorProto{Name: proto.String(name), Number: proto.Int32(num), Type: descriptorpb.FieldDescriptorProto_TYPE_STRING.Enum(), Label: descriptorpb.FieldDescriptorProto_LABEL_OPTIONAL.Enum(), JsonName: proto.String(name)}
	}
	msg := func(name string, num int32, typ string) *descriptorpb.FieldDescriptorProto {
		return &descriptorpb.FieldDescriptorProto{Name: proto.String(name), Number: proto.Int32(num), Type: descriptorpb.FieldDescriptorProto_TYPE_MESSAGE.Enum(), TypeName: proto.String(typ), Label: descriptorpb.FieldDescriptorProto_LABEL_OPTIONAL.Enum(), JsonName: proto.String(name)}
	}
	files := []*descriptorpb.FileDescriptorProto{
		{Name: proto.String("chain/c.proto"), Package: proto.String("chain.c"), Syntax: proto.String("proto3"),
			MessageType: []*descriptorpb.DescriptorProto{{Name: proto.String("Detail"), Field: []*descriptorpb.FieldDescriptorProto{str("s", 1)}}}},
		{Name: proto.String("chain/b.proto"), Package: proto.String("chain.b"), Syntax: proto.String("proto3"), Dependency: []string{"chain/c.proto"},
			MessageType: []*descriptorpb.DescriptorProto{{Name: proto.String("Mid"), Field: []*descriptorpb.FieldDescriptorProto{msg("d", 1, ".chain.c.Detail")}}}},
		{Name: proto.String("chain/a.proto"), Package: proto.String("chain.a"), Syntax: proto.String("proto3"), Dependency: []string{"chain/b.proto", "google/protobuf/any.proto"},
			MessageType: []*descriptorpb.DescriptorProto{
				{Name: proto.String("Req"), Field: []*descriptorpb.FieldDescriptorProto{msg("payload", 1, ".google.protobuf.Any"), msg("mid", 2, ".chain.b.Mid")}},
				{Name: proto.String("Ack"), Field: []*descriptorpb.FieldDescriptorProto{str("s", 1), msg("payload", 2, ".google.protobuf.Any")}},
			},
			Service: []*descriptorpb.ServiceDescriptorProto{{Name: proto.String("ChainService"), Method: []*descriptorpb.MethodDescriptorProto{
				{Name: proto.String("Echo"), InputType: proto.String(".chain.a.Req"), OutputType: proto.String(".chain.a.Ack")}}}}},
	}
	var last protoreflect.FileDescriptor
	for _, fdp := range files {
		fd, err := protodesc.NewFile(fdp, chainResolver{chainFiles})
		if err != nil {
			panic(fmt.Sprintf("%s: %v", fdp.GetName(), err))
		}
		if err := chainFiles.RegisterFile(fd); err != nil {
			panic(err)
		}
		last = fd
	}
	return last
}
