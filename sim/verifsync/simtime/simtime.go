// Package simtime stands in for package time in the simulator's build of the code under test (the build overlay
// rewrites the import; see /verif/vsim). Now, Since and Until read the simulator's clock while a simulated task is
// running, so that elapsed time is what the seeded schedule says it is (a stalled peer costs simulated milliseconds, not
// wall-clock luck). Everything else is package time itself; outside simulated tasks the real clock is used.
package simtime

import "time"

type (
	Duration   = time.Duration
	Time       = time.Time
	Timer      = time.Timer
	Ticker     = time.Ticker
	Location   = time.Location
	Month      = time.Month
	Weekday    = time.Weekday
	ParseError = time.ParseError
)

const (
	Nanosecond  = time.Nanosecond
	Microsecond = time.Microsecond
	Millisecond = time.Millisecond
	Second      = time.Second
	Minute      = time.Minute
	Hour        = time.Hour

	Layout      = time.Layout
	ANSIC       = time.ANSIC
	UnixDate    = time.UnixDate
	RubyDate    = time.RubyDate
	RFC822      = time.RFC822
	RFC822Z     = time.RFC822Z
	RFC850      = time.RFC850
	RFC1123     = time.RFC1123
	RFC1123Z    = time.RFC1123Z
	RFC3339     = time.RFC3339
	RFC3339Nano = time.RFC3339Nano
	Kitchen     = time.Kitchen
	Stamp       = time.Stamp
	StampMilli  = time.StampMilli
	StampMicro  = time.StampMicro
	StampNano   = time.StampNano
	DateTime    = time.DateTime
	DateOnly    = time.DateOnly
	TimeOnly    = time.TimeOnly

	January   = time.January
	February  = time.February
	March     = time.March
	April     = time.April
	May       = time.May
	June      = time.June
	July      = time.July
	August    = time.August
	September = time.September
	October   = time.October
	November  = time.November
	December  = time.December

	Sunday    = time.Sunday
	Monday    = time.Monday
	Tuesday   = time.Tuesday
	Wednesday = time.Wednesday
	Thursday  = time.Thursday
	Friday    = time.Friday
	Saturday  = time.Saturday
)

var (
	UTC   = time.UTC
	Local = time.Local
)

// Clock is installed by the simulator: the simulated time since the start of the world, and whether the caller is a
// simulated task at all.
var Clock func() (time.Duration, bool)

// Reads counts simulated clock reads (a reach probe).
var Reads int

// epoch anchors simulated time to a fixed instant, so that a run does not depend on the date.
var epoch = time.Date(2026, 1, 2, 3, 4, 5, 0, time.UTC)

func Now() time.Time {
	if c := Clock; c != nil {
		if d, ok := c(); ok {
			Reads++
			return epoch.Add(d)
		}
	}
	return time.Now()
}

func Since(t time.Time) time.Duration { return Now().Sub(t) }
func Until(t time.Time) time.Duration { return t.Sub(Now()) }

func After(d time.Duration) <-chan time.Time          { return time.After(d) }
func AfterFunc(d time.Duration, f func()) *time.Timer { return time.AfterFunc(d, f) }
func NewTimer(d time.Duration) *time.Timer            { return time.NewTimer(d) }
func NewTicker(d time.Duration) *time.Ticker          { return time.NewTicker(d) }
func Tick(d time.Duration) <-chan time.Time           { return time.Tick(d) }
func Sleep(d time.Duration)                           { time.Sleep(d) }
func ParseDuration(s string) (time.Duration, error)   { return time.ParseDuration(s) }
func Parse(layout, value string) (time.Time, error)   { return time.Parse(layout, value) }
func ParseInLocation(l, v string, loc *time.Location) (time.Time, error) {
	return time.ParseInLocation(l, v, loc)
}
func Date(y int, m time.Month, d, h, mi, s, ns int, loc *time.Location) time.Time {
	return time.Date(y, m, d, h, mi, s, ns, loc)
}
func Unix(sec, nsec int64) time.Time                   { return time.Unix(sec, nsec) }
func UnixMilli(ms int64) time.Time                     { return time.UnixMilli(ms) }
func UnixMicro(us int64) time.Time                     { return time.UnixMicro(us) }
func FixedZone(name string, offset int) *time.Location { return time.FixedZone(name, offset) }
func LoadLocation(name string) (*time.Location, error) { return time.LoadLocation(name) }
func LoadLocationFromTZData(n string, d []byte) (*time.Location, error) {
	return time.LoadLocationFromTZData(n, d)
}
