// Package verifsync stands in for package sync in the simulator's build of the code under test (the build overlay
// rewrites the import; see /verif/vsim). Its Mutex and RWMutex are scheduling seams: a task that has to wait for a lock
// parks in the simulator like at any other seam, so that lock waits are decided by the seeded schedule, a lock held
// across a blocking call is seen as what it is, and a lock cycle shows up as quiescence (deadlock) instead of hanging
// the simulator. Everything else is the real thing. Outside simulated tasks the real locks are used.
package verifsync

import "sync"

type (
	Pool      = sync.Pool
	Once      = sync.Once
	WaitGroup = sync.WaitGroup
	Map       = sync.Map
	Locker    = sync.Locker
	Cond      = sync.Cond
)

func NewCond(l Locker) *Cond                       { return sync.NewCond(l) }
func OnceFunc(f func()) func()                     { return sync.OnceFunc(f) }
func OnceValue[T any](f func() T) func() T         { return sync.OnceValue(f) }
func OnceValues[T1, T2 any](f func() (T1, T2)) func() (T1, T2) { return sync.OnceValues(f) }

// Block is installed by the simulator. It returns false when the caller is not a simulated task (use the real lock);
// otherwise it parks the task until cond holds or the world is being torn down, and returns true.
var Block func(site string, cond func() bool) bool

// Contended counts lock acquisitions that had to wait (a reach probe).
var Contended int

type Mutex struct {
	mu  sync.Mutex
	sim int // simulated holders (more than one only while an aborted world unwinds)
}

func (m *Mutex) Lock() {
	if b := Block; b != nil {
		if m.sim > 0 {
			Contended++
		}
		if b("mutex.lock", func() bool { return m.sim == 0 }) {
			m.sim++
			return
		}
	}
	m.mu.Lock()
}

func (m *Mutex) TryLock() bool {
	if b := Block; b != nil && b("", nil) {
		if m.sim > 0 {
			return false
		}
		m.sim++
		return true
	}
	return m.mu.TryLock()
}

func (m *Mutex) Unlock() {
	if m.sim > 0 {
		m.sim--
		return
	}
	m.mu.Unlock()
}

type RWMutex struct {
	mu      sync.RWMutex
	writers int
	readers int
}

func (m *RWMutex) Lock() {
	if b := Block; b != nil {
		if m.writers > 0 || m.readers > 0 {
			Contended++
		}
		if b("rwmutex.lock", func() bool { return m.writers == 0 && m.readers == 0 }) {
			m.writers++
			return
		}
	}
	m.mu.Lock()
}

func (m *RWMutex) Unlock() {
	if m.writers > 0 {
		m.writers--
		return
	}
	m.mu.Unlock()
}

func (m *RWMutex) RLock() {
	if b := Block; b != nil {
		if m.writers > 0 {
			Contended++
		}
		if b("rwmutex.rlock", func() bool { return m.writers == 0 }) {
			m.readers++
			return
		}
	}
	m.mu.RLock()
}

func (m *RWMutex) RUnlock() {
	if m.readers > 0 {
		m.readers--
		return
	}
	m.mu.RUnlock()
}

func (m *RWMutex) TryLock() bool {
	if b := Block; b != nil && b("", nil) {
		if m.writers > 0 || m.readers > 0 {
			return false
		}
		m.writers++
		return true
	}
	return m.mu.TryLock()
}

func (m *RWMutex) TryRLock() bool {
	if b := Block; b != nil && b("", nil) {
		if m.writers > 0 {
			return false
		}
		m.readers++
		return true
	}
	return m.mu.TryRLock()
}

func (m *RWMutex) RLocker() Locker { return (*rlocker)(m) }

type rlocker RWMutex

func (r *rlocker) Lock()   { (*RWMutex)(r).RLock() }
func (r *rlocker) Unlock() { (*RWMutex)(r).RUnlock() }
