// Package verifsync stands in for package sync in the simulator's build of the code under test (the build overlay
// rewrites the import; see /verif/vsim). Its Mutex and RWMutex are scheduling seams: a task that has to wait for a lock
// parks in the simulator like at any other seam, so that lock waits are decided by the seeded schedule, a lock held
// across a blocking call is seen as what it is, and a lock cycle shows up as quiescence (deadlock) instead of hanging
// the simulator. Everything else is the real thing. Outside simulated tasks the real locks are used.
package verifsync

import (
	"sync"
	"unsafe"
)

type (
	Once   = sync.Once
	Map    = sync.Map
	Locker = sync.Locker
	Cond   = sync.Cond
)

func NewCond(l Locker) *Cond                                   { return sync.NewCond(l) }
func OnceFunc(f func()) func()                                 { return sync.OnceFunc(f) }
func OnceValue[T any](f func() T) func() T                     { return sync.OnceValue(f) }
func OnceValues[T1, T2 any](f func() (T1, T2)) func() (T1, T2) { return sync.OnceValues(f) }

// Epoch is advanced by the simulator for every world it runs: pooled objects never travel from one world to the next
// (a package-level pool would otherwise make a run depend on what the process executed before it).
var Epoch int

// PoolGets / PoolHits count simulated pool traffic (a reach probe).
var PoolGets, PoolHits int

// Pool is sync.Pool made repeatable: inside simulated tasks it is a plain most-recently-released-first free list that
// never drops anything - the policy under which state left in a recycled object is certain to meet its next user, and
// the same in every execution of a plan. (The repository's byte-buffer pool has its own, richer stand-in behind the
// verif hook; this one covers every other pool, including ones added later.)
type Pool struct {
	New func() any

	real  sync.Pool
	items []any
	epoch int
}

func (p *Pool) Get() any {
	if b := Block; b != nil && b("", nil) {
		if p.epoch != Epoch {
			p.items, p.epoch = nil, Epoch
		}
		PoolGets++
		if n := len(p.items); n > 0 {
			x := p.items[n-1]
			p.items = p.items[:n-1]
			PoolHits++
			raceAcquire(dataPtr(x)) // like sync.Pool: the Put of an object happens before the Get that returns it
			return x
		}
		if p.New != nil {
			return p.New()
		}
		return nil
	}
	if x := p.real.Get(); x != nil {
		return x
	}
	if p.New != nil {
		return p.New()
	}
	return nil
}

func (p *Pool) Put(x any) {
	if x == nil {
		return
	}
	if b := Block; b != nil && b("", nil) {
		if p.epoch != Epoch {
			p.items, p.epoch = nil, Epoch
		}
		raceReleaseMerge(dataPtr(x))
		p.items = append(p.items, x)
		return
	}
	p.real.Put(x)
}

// Block is installed by the simulator. It returns false when the caller is not a simulated task (use the real lock);
// otherwise it parks the task until cond holds or the world is being torn down, and returns true.
var Block func(site string, cond func() bool) bool

// Contended counts lock acquisitions that had to wait (a reach probe).
var Contended int

type Mutex struct {
	mu  sync.Mutex
	sim int // simulated holders (more than one only while an aborted world unwinds)
}

func (m *Mutex) Lock() {
	if b := Block; b != nil {
		if m.sim > 0 {
			Contended++
		}
		if b("mutex.lock", func() bool { return m.sim == 0 }) {
			m.sim++
			raceAcquire(unsafe.Pointer(m))
			return
		}
	}
	m.mu.Lock()
}

func (m *Mutex) TryLock() bool {
	if b := Block; b != nil && b("", nil) {
		if m.sim > 0 {
			return false
		}
		m.sim++
		raceAcquire(unsafe.Pointer(m))
		return true
	}
	return m.mu.TryLock()
}

func (m *Mutex) Unlock() {
	if m.sim > 0 {
		raceRelease(unsafe.Pointer(m))
		m.sim--
		return
	}
	m.mu.Unlock()
}

type RWMutex struct {
	mu      sync.RWMutex
	writers int
	readers int
}

func (m *RWMutex) Lock() {
	if b := Block; b != nil {
		if m.writers > 0 || m.readers > 0 {
			Contended++
		}
		if b("rwmutex.lock", func() bool { return m.writers == 0 && m.readers == 0 }) {
			m.writers++
			raceAcquire(unsafe.Pointer(m))
			return
		}
	}
	m.mu.Lock()
}

func (m *RWMutex) Unlock() {
	if m.writers > 0 {
		raceRelease(unsafe.Pointer(m))
		m.writers--
		return
	}
	m.mu.Unlock()
}

func (m *RWMutex) RLock() {
	if b := Block; b != nil {
		if m.writers > 0 {
			Contended++
		}
		if b("rwmutex.rlock", func() bool { return m.writers == 0 }) {
			m.readers++
			raceAcquire(unsafe.Pointer(m))
			return
		}
	}
	m.mu.RLock()
}

func (m *RWMutex) RUnlock() {
	if m.readers > 0 {
		raceReleaseMerge(unsafe.Pointer(m))
		m.readers--
		return
	}
	m.mu.RUnlock()
}

func (m *RWMutex) TryLock() bool {
	if b := Block; b != nil && b("", nil) {
		if m.writers > 0 || m.readers > 0 {
			return false
		}
		m.writers++
		return true
	}
	return m.mu.TryLock()
}

func (m *RWMutex) TryRLock() bool {
	if b := Block; b != nil && b("", nil) {
		if m.writers > 0 {
			return false
		}
		m.readers++
		return true
	}
	return m.mu.TryRLock()
}

func (m *RWMutex) RLocker() Locker { return (*rlocker)(m) }

type rlocker RWMutex

func (r *rlocker) Lock()   { (*RWMutex)(r).RLock() }
func (r *rlocker) Unlock() { (*RWMutex)(r).RUnlock() }

// dataPtr is the data word of an interface value (the pooled object's address for pointer-shaped values).
func dataPtr(x any) unsafe.Pointer { return (*[2]unsafe.Pointer)(unsafe.Pointer(&x))[1] }

// Spawn is installed by the simulator: it starts fn as a task of the running world and returns true, or returns false when
// the caller is not a simulated task.
var Spawn func(fn func()) bool

// Spawned counts goroutines of the code under test that became simulated tasks (a reach probe).
var Spawned int

// Go is what the build overlay turns a go statement of the package under test into (see rewrite_go_statements in
// /verif/vsim): goroutine creation is a seam. Inside a simulated world the new goroutine is a task like any other - the
// seeded schedule decides when it runs, its seam calls are logged and judged, it counts for quiescence; elsewhere it is
// the plain go statement.
func Go(fn func()) {
	if s := Spawn; s != nil && s(fn) {
		Spawned++
		return
	}
	go fn()
}

// WaitGroup: waiting for goroutines that are simulated tasks must park in the simulator too.
type WaitGroup struct {
	real sync.WaitGroup
	n    int
}

func (wg *WaitGroup) Add(delta int) {
	if b := Block; b != nil && b("", nil) {
		wg.n += delta
		if delta < 0 {
			raceReleaseMerge(unsafe.Pointer(wg))
		}
		if wg.n < 0 {
			panic("sync: negative WaitGroup counter")
		}
		return
	}
	wg.real.Add(delta)
}

func (wg *WaitGroup) Done() { wg.Add(-1) }

func (wg *WaitGroup) Go(f func()) {
	wg.Add(1)
	Go(func() {
		defer wg.Done()
		f()
	})
}

func (wg *WaitGroup) Wait() {
	if b := Block; b != nil && b("waitgroup.wait", func() bool { return wg.n == 0 }) {
		raceAcquire(unsafe.Pointer(wg))
		return
	}
	wg.real.Wait()
}
