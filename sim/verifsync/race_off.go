//go:build !race

package verifsync

import "unsafe"

func raceAcquire(unsafe.Pointer)      {}
func raceRelease(unsafe.Pointer)      {}
func raceReleaseMerge(unsafe.Pointer) {}
