//go:build race

package verifsync

import (
	"runtime"
	"unsafe"
)

func raceAcquire(p unsafe.Pointer)      { runtime.RaceAcquire(p) }
func raceRelease(p unsafe.Pointer)      { runtime.RaceRelease(p) }
func raceReleaseMerge(p unsafe.Pointer) { runtime.RaceReleaseMerge(p) }
