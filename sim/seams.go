package verifsim

// Seams owned by the simulator that are installed into the transcoder through its own options
// (WithCodec, WithCompression) and through the verif-tagged buffer-pool hook.

import (
	"bytes"
	"compress/gzip"
	"compress/zlib"
	"errors"
	"fmt"
	"io"
	"runtime/debug"
	"unsafe"

	"connectrpc.com/connect"
	"connectrpc.com/vanguard"
	"google.golang.org/protobuf/proto"
	"google.golang.org/protobuf/reflect/protoreflect"
)

// env is the per-world state the seams report to. Exactly one world runs at a time per process.
type env struct {
	w    *World
	pool *simPool
	// library fault injection: fail the k-th call of a kind
	calls         tally
	failAt        map[string]int
	Fired         map[string]int
	Misuse        []string
	decompMax     int64 // largest single decompression output
	decompCap     int64
	decompOverCap bool
	curRPC        func() string
}

var curEnv *env

// tally is a counter keyed by short strings, searched linearly: no runtime map operations, which the race build of
// the simulator would report for state that tasks share through the baton.
type tally struct {
	keys []string
	vals []int
}

func (t *tally) inc(k string) {
	for i := range t.keys {
		if t.keys[i] == k {
			t.vals[i]++
			return
		}
	}
	t.keys = append(t.keys, k)
	t.vals = append(t.vals, 1)
}

func (t *tally) get(k string) int {
	for i := range t.keys {
		if t.keys[i] == k {
			return t.vals[i]
		}
	}
	return 0
}

func (e *env) seam(kind string) error {
	if e == nil {
		return nil
	}
	e.calls.inc(kind)
	if e.w != nil {
		e.w.Yield("lib." + kind)
	}
	if at, ok := e.failAt[kind]; ok && e.calls.get(kind) == at {
		e.Fired[kind]++
		if e.w != nil {
			e.w.Logf("fault", "%s call %d fails", kind, at)
		}
		return fmt.Errorf("sim: injected %s failure", kind)
	}
	// per RPC: the k-th call of this kind made by a task of that RPC (independent of how RPCs interleave)
	if e.pool != nil && e.pool.owner != nil {
		key := e.pool.owner() + "/" + kind
		if len(e.failAt) == 0 {
			return nil
		}
		e.calls.inc(key)
		if at, ok := e.failAt[key]; ok && e.calls.get(key) == at {
			e.Fired["lib-"+kind]++
			if e.w != nil {
				e.w.Logf("fault", "%s call %d fails", key, at)
			}
			return fmt.Errorf("sim: injected %s failure", kind)
		}
	}
	return nil
}

// ---------------------------------------------------------------------------------------
// codecs

type codecFull struct{ inner vanguard.Codec } // Stable + REST (json)
type codecStable struct{ inner vanguard.Codec }
type codecPlain struct{ inner vanguard.Codec }

func (c codecPlain) Name() string { return c.inner.Name() }
func (c codecPlain) MarshalAppend(b []byte, m proto.Message) ([]byte, error) {
	if err := curEnv.seam("marshal"); err != nil {
		return nil, err
	}
	return c.inner.MarshalAppend(b, m)
}
func (c codecPlain) Unmarshal(d []byte, m proto.Message) error {
	if err := curEnv.seam("unmarshal"); err != nil {
		return err
	}
	return c.inner.Unmarshal(d, m)
}

func (c codecStable) Name() string { return c.inner.Name() }
func (c codecStable) MarshalAppend(b []byte, m proto.Message) ([]byte, error) {
	return codecPlain{c.inner}.MarshalAppend(b, m)
}
func (c codecStable) Unmarshal(d []byte, m proto.Message) error {
	return codecPlain{c.inner}.Unmarshal(d, m)
}
func (c codecStable) MarshalAppendStable(b []byte, m proto.Message) ([]byte, error) {
	if err := curEnv.seam("marshal"); err != nil {
		return nil, err
	}
	return c.inner.(vanguard.StableCodec).MarshalAppendStable(b, m)
}
func (c codecStable) IsBinary() bool { return c.inner.(vanguard.StableCodec).IsBinary() }

func (c codecFull) Name() string { return c.inner.Name() }
func (c codecFull) MarshalAppend(b []byte, m proto.Message) ([]byte, error) {
	return codecPlain{c.inner}.MarshalAppend(b, m)
}
func (c codecFull) Unmarshal(d []byte, m proto.Message) error {
	return codecPlain{c.inner}.Unmarshal(d, m)
}
func (c codecFull) MarshalAppendStable(b []byte, m proto.Message) ([]byte, error) {
	return codecStable{c.inner}.MarshalAppendStable(b, m)
}
func (c codecFull) IsBinary() bool { return c.inner.(vanguard.StableCodec).IsBinary() }
func (c codecFull) MarshalAppendField(b []byte, m proto.Message, f protoreflect.FieldDescriptor) ([]byte, error) {
	if err := curEnv.seam("marshal"); err != nil {
		return nil, err
	}
	return c.inner.(vanguard.RESTCodec).MarshalAppendField(b, m, f)
}
func (c codecFull) UnmarshalField(d []byte, m proto.Message, f protoreflect.FieldDescriptor) error {
	if err := curEnv.seam("unmarshal"); err != nil {
		return err
	}
	return c.inner.(vanguard.RESTCodec).UnmarshalField(d, m, f)
}

// altCodec is a third codec ("alt"): proto bytes with a one-byte marker in front, so that codec
// *sets* can have three members and a mis-routed payload cannot decode by accident.
type altCodec struct{ inner *vanguard.ProtoCodec }

func (c altCodec) Name() string { return "alt" }
func (c altCodec) MarshalAppend(b []byte, m proto.Message) ([]byte, error) {
	if err := curEnv.seam("marshal"); err != nil {
		return nil, err
	}
	b = append(b, 0xA7)
	return c.inner.MarshalAppendStable(b, m)
}
func (c altCodec) Unmarshal(d []byte, m proto.Message) error {
	if err := curEnv.seam("unmarshal"); err != nil {
		return err
	}
	if len(d) == 0 || d[0] != 0xA7 {
		return errors.New("alt codec: missing marker")
	}
	return c.inner.Unmarshal(d[1:], m)
}

// ---------------------------------------------------------------------------------------
// compressors: thin wrappers over the real gzip / zlib that detect misuse deterministically

type simCompressor struct {
	name  string
	gz    *gzip.Writer
	zl    *zlib.Writer
	bound bool
}

func newSimCompressor(name string) connect.Compressor {
	c := &simCompressor{name: name}
	if name == "gzip" {
		c.gz = gzip.NewWriter(io.Discard)
	} else {
		c.zl = zlib.NewWriter(io.Discard)
	}
	return c
}

func (c *simCompressor) Reset(w io.Writer) {
	_ = curEnv.seam("comp.reset")
	c.bound = true
	if c.gz != nil {
		c.gz.Reset(w)
	} else {
		c.zl.Reset(w)
	}
}
func (c *simCompressor) Write(p []byte) (int, error) {
	if !c.bound && curEnv != nil {
		curEnv.Misuse = append(curEnv.Misuse, "compressor "+c.name+": Write without Reset")
	}
	if err := curEnv.seam("comp.write"); err != nil {
		return 0, err
	}
	if c.gz != nil {
		return c.gz.Write(p)
	}
	return c.zl.Write(p)
}
func (c *simCompressor) Close() error {
	if !c.bound && curEnv != nil {
		curEnv.Misuse = append(curEnv.Misuse, "compressor "+c.name+": Close without Reset")
	}
	c.bound = false
	if err := curEnv.seam("comp.close"); err != nil {
		return err
	}
	if c.gz != nil {
		return c.gz.Close()
	}
	return c.zl.Close()
}

type simDecompressor struct {
	name  string
	gz    *gzip.Reader
	zl    io.ReadCloser
	bound bool
	out   int64
}

func newSimDecompressor(name string) connect.Decompressor {
	return &simDecompressor{name: name}
}

func (d *simDecompressor) Reset(r io.Reader) error {
	if err := curEnv.seam("decomp.reset"); err != nil {
		d.bound = false
		return err
	}
	d.out = 0
	var err error
	if d.name == "gzip" {
		if d.gz == nil {
			d.gz, err = gzip.NewReader(r)
		} else {
			err = d.gz.Reset(r)
		}
	} else {
		if d.zl == nil {
			d.zl, err = zlib.NewReader(r)
		} else {
			err = d.zl.(zlib.Resetter).Reset(r, nil)
		}
	}
	d.bound = err == nil
	return err
}
func (d *simDecompressor) Read(p []byte) (int, error) {
	if !d.bound {
		if curEnv != nil {
			curEnv.Misuse = append(curEnv.Misuse, "decompressor "+d.name+": Read without successful Reset")
		}
		return 0, errors.New("sim: decompressor not reset")
	}
	if err := curEnv.seam("decomp.read"); err != nil {
		return 0, err
	}
	var n int
	var err error
	if d.name == "gzip" {
		n, err = d.gz.Read(p)
	} else {
		n, err = d.zl.Read(p)
	}
	d.out += int64(n)
	if e := curEnv; e != nil {
		if d.out > e.decompMax {
			e.decompMax = d.out
		}
		if e.decompCap > 0 && d.out > e.decompCap {
			e.decompOverCap = true
			return n, errors.New("sim: decompression output cap reached")
		}
	}
	return n, err
}
func (d *simDecompressor) Close() error {
	d.bound = false
	if err := curEnv.seam("decomp.close"); err != nil {
		return err
	}
	if d.name == "gzip" {
		if d.gz == nil {
			// no Reset of this object has ever got past the gzip header. The transcoder's (and connect-go's) default
			// decompressor is a zero gzip.Reader, which is in exactly this state then; closing it is what the real object
			// makes of it (a nil dereference inside compress/gzip), so that is what happens here
			return new(gzip.Reader).Close()
		}
		return d.gz.Close()
	}
	if d.zl == nil {
		return nil
	}
	return d.zl.Close()
}

// ---------------------------------------------------------------------------------------
// deterministic buffer pool behind the verif hook

type bufMeta struct {
	free      bool
	capAtGet  int
	owner     string
	poisoned  int // number of poisoned bytes (whole capacity)
	freedAt   int // pool op counter when released
	freedSite string
}

type simPool struct {
	plan                      PoolPlan
	rng                       *Chooser
	free                      []*bytes.Buffer
	meta                      bufMetas
	ops                       int
	Gets, Puts, Reuses, Fresh int
	MaxCap                    int
	MaxGrowth                 int
	Violations                []string
	owner                     func() string
	CrossRPCReuse             int
	lastOwner                 bufOwners
}

const poisonByte = 0xA5

func newSimPool(pp PoolPlan) *simPool {
	return &simPool{plan: pp, rng: NewChooser(pp.Seed, 99)}
}

// bufMetas / bufOwners: tiny association lists keyed by buffer identity (a pool holds a handful of buffers).
type bufMetas struct {
	k []*bytes.Buffer
	v []*bufMeta
}

func (m *bufMetas) get(b *bytes.Buffer) *bufMeta {
	for i := range m.k {
		if m.k[i] == b {
			return m.v[i]
		}
	}
	return nil
}
func (m *bufMetas) set(b *bytes.Buffer, x *bufMeta) {
	for i := range m.k {
		if m.k[i] == b {
			m.v[i] = x
			return
		}
	}
	m.k, m.v = append(m.k, b), append(m.v, x)
}
func (m *bufMetas) del(b *bytes.Buffer) {
	for i := range m.k {
		if m.k[i] == b {
			m.k, m.v = append(m.k[:i], m.k[i+1:]...), append(m.v[:i], m.v[i+1:]...)
			return
		}
	}
}

type bufOwners struct {
	k []*bytes.Buffer
	v []string
}

func (m *bufOwners) get(b *bytes.Buffer) string {
	for i := range m.k {
		if m.k[i] == b {
			return m.v[i]
		}
	}
	return ""
}
func (m *bufOwners) set(b *bytes.Buffer, x string) {
	for i := range m.k {
		if m.k[i] == b {
			m.v[i] = x
			return
		}
	}
	m.k, m.v = append(m.k, b), append(m.v, x)
}

func fullCap(b *bytes.Buffer) []byte {
	x := b.Bytes()
	return x[:cap(x)]
}

func (p *simPool) get(w *World) *bytes.Buffer {
	if w != nil {
		w.Yield("pool.get")
	}
	p.ops++
	p.Gets++
	if p.plan.Policy == "never" || len(p.free) == 0 {
		p.Fresh++
		return nil
	}
	// candidates: respect quarantine
	var cands []int
	for i, b := range p.free {
		if p.ops-p.meta.get(b).freedAt > p.plan.Quarantine {
			cands = append(cands, i)
		}
	}
	if len(cands) == 0 {
		p.Fresh++
		return nil
	}
	var pick int
	switch p.plan.Policy {
	case "fifo":
		pick = cands[0]
	case "random":
		pick = cands[p.rng.Intn(len(cands))]
	default: // lifo
		pick = cands[len(cands)-1]
	}
	b := p.free[pick]
	p.free = append(p.free[:pick], p.free[pick+1:]...)
	m := p.meta.get(b)
	if !m.free {
		p.Violations = append(p.Violations, "pool handed out a buffer that is not free")
	}
	if p.plan.Poison {
		raw := fullCap(b)
		for i := 0; i < m.poisoned && i < len(raw); i++ {
			if raw[i] != poisonByte {
				p.Violations = append(p.Violations, fmt.Sprintf("released buffer was written to after release (offset %d)", i))
				break
			}
		}
	}
	m.free = false
	m.capAtGet = b.Cap()
	raceAcquire(unsafe.Pointer(b)) // like sync.Pool: the Put of an object happens before the Get that returns it
	owner := ""
	if p.owner != nil {
		owner = p.owner()
	}
	if lo := p.lastOwner.get(b); lo != "" && lo != owner {
		p.CrossRPCReuse++
	}
	m.owner = owner
	p.Reuses++
	if w != nil {
		w.Logf("pool.get", "reuse cap=%d", b.Cap())
	}
	return b
}

func (p *simPool) put(w *World, b *bytes.Buffer) bool {
	if w != nil {
		w.Yield("pool.put")
	}
	p.ops++
	p.Puts++
	if b == nil {
		p.Violations = append(p.Violations, "Put(nil)")
		return true
	}
	m := p.meta.get(b)
	if m == nil {
		m = &bufMeta{}
		p.meta.set(b, m)
	} else if m.free {
		p.Violations = append(p.Violations, "buffer released twice at "+panicSite(debug.Stack())+" (first release at "+m.freedSite+")")
		if w != nil {
			w.Logf("pool.put", "DOUBLE")
		}
		return true
	}
	if b.Cap() > p.MaxCap {
		p.MaxCap = b.Cap()
	}
	if g := b.Cap() - m.capAtGet; g > p.MaxGrowth {
		p.MaxGrowth = g
	}
	if p.owner != nil {
		p.lastOwner.set(b, p.owner())
	}
	if b.Cap() > 8<<20 {
		p.meta.del(b)
		return true // dropped, like the real pool
	}
	m.free = true
	m.freedAt = p.ops
	m.freedSite = firstSite(panicSite(debug.Stack()))
	if p.plan.Poison {
		// make the whole backing array recognisable; keep the buffer's own length so that a missing
		// Reset on reuse hands stale (poison) bytes to whoever gets it next
		n := b.Len()
		b.Reset()
		raw := fullCap(b)
		for i := range raw {
			raw[i] = poisonByte
		}
		m.poisoned = len(raw)
		if n > 0 {
			if n > len(raw) {
				n = len(raw)
			}
			b.Write(raw[:n])
		}
	}
	p.free = append(p.free, b)
	if w != nil {
		w.Logf("pool.put", "cap=%d", b.Cap())
	}
	raceReleaseMerge(unsafe.Pointer(b)) // after the poison is written: the next holder is ordered after all of this
	return true
}

func init() {
	vanguard.SetVerifHooks(&vanguard.VerifHooks{
		BufGet: func(any) *bytes.Buffer {
			if curEnv == nil || curEnv.pool == nil {
				return nil
			}
			return curEnv.pool.get(curEnv.w)
		},
		BufPut: func(_ any, b *bytes.Buffer) bool {
			if curEnv == nil || curEnv.pool == nil {
				return false
			}
			return curEnv.pool.put(curEnv.w, b)
		},
	})
}
