package verifsim

import (
	"fmt"
	"strings"
)

// C17: NewTranscoder accepts exactly the servable configurations and honours them.

var c17Invalid = []string{"unknown-codec", "unknown-compression", "no-protocol", "no-codec", "duplicate-service", "bad-template", "conflicting-bindings", "bad-body-selector",
	"bad-response-body-selector", "bad-variable", "selector-no-match", "selector-prefix-no-match", "rest-only-no-bindings", "nested-additional-bindings", "rule-without-pattern", "rule-without-selector",
	"unknown-default-codec", "zero-max-message"}

var badTemplates = []string{"", "v1/x", "/a/**/b", "/{string_value", "/{string_value.}", "/a//b", "/{string_value}/{string_value}", "/a:", "/a b", "/%zz", "/a/{}", "/a/{string_value=}",
	"/{string_value=**}/x", "/a/**:v/x", "/{1bad}", "/a/{string_value}}", "/*/**/**"}

func validRules(c *Chooser) []RulePlan {
	rules := []RulePlan{
		{Selector: "sim.v1.BareService.Ping", Method: "GET", Template: "/c17/ping/{string_value}"},
		{Selector: "sim.v1.BareService.Other", Method: "POST", Template: "/c17/other/{recursive.string_value=a/*}:go", Body: "nested", RespBody: "nested"},
	}
	if c.Bool() {
		rules = append(rules, RulePlan{Selector: "sim.v1.BareService.PingAll", Method: "GET", Template: "/c17/pingall"})
	}
	if c.Bool() {
		rules = append(rules, RulePlan{Selector: "sim.v1.ParamService.Plain", Method: "PUT", Template: "/c17/plain/{string_value=**}", Body: "*",
			Additional: []RulePlan{{Method: "DELETE", Template: "/c17/plain2/{int32_value}"}}})
	}
	return rules
}

// genC17 builds a configuration and its ground truth.
func genC17(c *Chooser) *Plan {
	cfg := ConfigPlan{Services: []ServicePlan{
		{Schema: "bare", Protocols: genSubset(c, allTargetProtocols, true), Codecs: genSubset(c, []string{"proto", "json"}, true), MaxMsg: 1 << 20},
		{Schema: "sim2", Protocols: genSubset(c, allTargetProtocols, true), MaxMsg: 1 << 20},
	}, Rules: validRules(c)}
	if c.Prob(0.3) {
		cfg.Services = append(cfg.Services, ServicePlan{Schema: "library", MaxMsg: 1 << 20})
	}
	if c.Prob(0.3) {
		// defaults that every service overrides at least in part
		cfg.Defaults = &ServicePlan{Protocols: []string{Pick(c, ProtoGRPC, ProtoConnect)}, Codecs: []string{"json"}}
	}
	class := "valid"
	if c.Prob(0.6) {
		class = c17Invalid[c.Intn(len(c17Invalid))]
	}
	switch class {
	case "unknown-codec":
		cfg.Services[c.Intn(2)].Codecs = []string{"proto", Pick(c, "xml", "JSON", "protobuf", "")}
	case "unknown-compression":
		cfg.Services[c.Intn(2)].Compression = []string{Pick(c, "snappy", "br", "GZIP", "")}
	case "no-protocol":
		s := &cfg.Services[c.Intn(2)]
		s.Protocols, s.EmptyProtocols = nil, true
	case "no-codec":
		s := &cfg.Services[c.Intn(2)]
		s.Codecs, s.EmptyCodecs = nil, true
	case "duplicate-service":
		cfg.Services = append(cfg.Services, cfg.Services[c.Intn(2)])
	case "bad-template":
		cfg.Rules[0].Template = badTemplates[c.Intn(len(badTemplates))]
	case "conflicting-bindings":
		dup := cfg.Rules[0]
		dup.Selector = Pick(c, "sim.v1.BareService.Other", "sim.v1.BareService.Ping", "sim.v1.ParamService.Plain")
		dup.Body, dup.RespBody = "", ""
		cfg.Rules = append(cfg.Rules, dup)
	case "bad-body-selector":
		cfg.Rules[1].Body = Pick(c, "nosuch", "nested.double_value", "Nested", "nested.", "string_map.key")
	case "bad-response-body-selector":
		cfg.Rules[1].RespBody = Pick(c, "nosuch", "nested.double_value", "recursive.nosuch")
	case "bad-variable":
		cfg.Rules[0].Template = "/c17/ping/{" + Pick(c, "nosuch", "double_list", "string_map", "nested", "recursive.nosuch", "nested.double_value.x", "enum_list") + "}"
	case "selector-no-match":
		cfg.Rules[0].Selector = Pick(c, "sim.v1.BareService.Nope", "other.pkg.Service.Method", "other.pkg.*", "sim.v1.Nope.*", "sim.v1.BareService.ping")
	case "selector-prefix-no-match":
		// names no method exactly, but is a textual prefix of some: must not bind them
		cfg.Rules[0].Selector = Pick(c, "sim.v1.BareService.Pin", "sim.v1.BareService.P", "sim.v1.ParamService.Body", "sim.v1.BareService", "sim.v1.BareServic")
	case "rest-only-no-bindings":
		cfg.Services[0].Protocols = []string{ProtoREST}
		var keep []RulePlan
		for _, r := range cfg.Rules {
			if !strings.Contains(r.Selector, "BareService") {
				keep = append(keep, r)
			}
		}
		cfg.Rules = keep
	case "nested-additional-bindings":
		cfg.Rules[0].Additional = []RulePlan{{Method: "POST", Template: "/c17/nest1", Additional: []RulePlan{{Method: "PUT", Template: "/c17/nest2"}}}}
	case "rule-without-pattern":
		cfg.Rules[0].NoPattern = true
	case "rule-without-selector":
		cfg.Rules[0].Selector = ""
	case "unknown-default-codec":
		cfg.Defaults = &ServicePlan{Codecs: []string{"xml"}}
		cfg.Services[0].Codecs, cfg.Services[1].Codecs = nil, nil
		if len(cfg.Services) > 2 {
			cfg.Services = cfg.Services[:2]
		}
	case "zero-max-message":
		// documented: zero means the 4 GB default; must be accepted. Kept as a valid-class probe.
		class = "valid"
	}
	// shuffle registration order of services and rules
	for i := len(cfg.Rules) - 1; i > 0; i-- {
		j := c.Intn(i + 1)
		cfg.Rules[i], cfg.Rules[j] = cfg.Rules[j], cfg.Rules[i]
	}
	p := &Plan{Config: cfg, Sched: SchedPlan{Policy: "seq"}, Pool: PoolPlan{Policy: "lifo"}, Note: class}
	if class != "valid" {
		return p
	}
	// probes for an accepted configuration: every binding through its URL, and the methods a selector must not have bound
	for _, b := range refTable(&cfg) {
		if b.svc.Schema == "library" {
			continue
		}
		msg := genMessage(c, b.method.Input(), &MsgGenOpts{MaxDepth: 1, MaxBytes: 8, SingleEntry: true}, 0)
		sanitizeForBinding(c, b, msg.ProtoReflect())
		req, ok := refEncodeRequest(b, msg, false)
		if !ok {
			continue
		}
		cp := ClientPlan{Form: FormREST, HTTP: 2, Service: b.svc.Schema, Method: string(b.method.Name()), Codec: "json", HTTPMethod: req.Method, Path: req.Path, RawQuery: req.RawQuery}
		if req.HasBody {
			cp.RestJSON, cp.ContentType = req.Body, req.ContentType
			if cp.RestJSON == nil {
				cp.RestJSON = []byte{}
			}
		}
		p.RPCs = append(p.RPCs, RPCPlan{Client: cp, Backend: BackendPlan{Resp: RespPlan{Msgs: []MsgSpec{{Data: []byte{}}}, TrailerStyle: "prefix"}}})
	}
	// an RPC probe per service: the backend must be addressed with that service's own options
	for _, sm := range [][2]string{{"bare", "PingAll"}, {"sim2", "Plain"}} {
		cp := ClientPlan{Form: Pick(c, FormConnectUnary, FormConnectUnary, FormGRPC, FormGRPCWeb), HTTP: 2, Service: sm[0], Method: sm[1], Codec: Pick(c, "proto", "json"),
			Compression: Pick(c, "", "", "gzip"), Msgs: []MsgSpec{{Data: []byte{}, Compressed: true}}}
		p.RPCs = append(p.RPCs, RPCPlan{Client: cp, Backend: BackendPlan{Resp: RespPlan{Msgs: []MsgSpec{{Data: []byte{}}}, TrailerStyle: "prefix"}}})
	}
	return p
}

func c17Oracle(p *Plan) *Verdict {
	v := &Verdict{}
	r := Run(p)
	v.absorb(r)
	if r.World != nil {
		v.Trace = r.World.Log
	}
	class := p.Note
	facts := map[string]string{"class": class}
	v.Class = class
	v.Nontrivial = true
	v.probe("class-" + class)
	if class != "valid" {
		if !c17StillInvalid(p, class) {
			return v // a shrunk plan that lost its defect
		}
		if r.BuildErr == "" {
			pj := ""
			for _, ru := range p.Config.Rules {
				pj += fmt.Sprintf("[%s %s %s body=%q resp=%q] ", ru.Selector, ru.Method, ru.Template, ru.Body, ru.RespBody)
			}
			v.violate("invalid-config-accepted", facts, "NewTranscoder accepted a configuration of class %s; rules: %s", class, pj)
		}
		return v
	}
	if r.BuildErr != "" {
		v.violate("valid-config-rejected", facts, "NewTranscoder rejected a servable configuration: %s", r.BuildErr)
		return v
	}
	table := refTable(&p.Config)
	for i, st := range r.RPCs {
		rc := &p.RPCs[i]
		if st.Rejected != "" || st.Outcome == nil {
			continue
		}
		if st.ServePanic != "" {
			v.violate("panic", facts, "ServeHTTP panicked: %s at %s", st.ServePanic, st.ServePanicStack)
			continue
		}
		if rc.Client.Form == FormREST {
			raw := st.orig.RequestURI
			if k := strings.IndexByte(raw, '?'); k >= 0 {
				raw = raw[:k]
			}
			res := resolveRef(table, st.orig.Method, raw)
			want := rc.Client.Service + "." + rc.Client.Method
			if res.kind != "dispatch" {
				continue
			}
			if len(st.Backend) != 1 {
				f := copyFacts(facts)
				v.violate("binding-unreachable", f, "the binding %s %s of %s is not reachable through the URL built from its template (%s %s): %s", res.binding.httpMeth, res.binding.tmpl.raw, want, st.orig.Method, st.orig.RequestURI, outcomeBrief(st.Outcome))
				continue
			}
			if got := st.Backend[0].RPCMethod; got != string(res.binding.method.FullName()) {
				v.violate("binding-reaches-wrong-method", facts, "URL %s %s built from the binding of %s reached %s", st.orig.Method, st.orig.RequestURI, res.binding.method.FullName(), got)
			}
			v.probe("binding-probed")
			continue
		}
		// RPC probe: per-service options override defaults
		if len(st.Backend) != 1 {
			v.violate("rpc-probe-not-dispatched", facts, "RPC probe for %s.%s was not dispatched: %s", rc.Client.Service, rc.Client.Method, outcomeBrief(st.Outcome))
			continue
		}
		b := st.Backend[0]
		svc := st.svc
		// exactly what this service's own options (over the defaults, over the built-in defaults) prescribe for this client:
		// its protocol, codec and compression are kept when the service accepts them, whatever another service was given
		eff := effectiveService(svc, p.Config.Defaults)
		if n := refNegotiate(&eff, rc.Client.Form, rc.Client.Codec, rc.Client.Compression); b.Protocol != n.Protocol ||
			(b.Protocol != ProtoREST && b.Codec != n.Codec) || b.Compression != n.Compression {
			v.violate("service-options-not-honoured", facts, "service %s (protocols %v codecs %v compression %v after defaults %v) was addressed in %s/%s/%q; its own options prescribe %s/%s/%q for a %s %s %q client",
				svc.Schema, eff.protocols(), eff.codecs(), eff.compressions(), p.Config.Defaults, b.Protocol, b.Codec, b.Compression, n.Protocol, n.Codec, n.Compression, rc.Client.Form, rc.Client.Codec, rc.Client.Compression)
			continue
		}
		if !contains(svc.protocols(), b.Protocol) {
			v.violate("service-options-not-honoured", facts, "service %s is configured with protocols %v (defaults: %v) but its handler was addressed in %s", svc.Schema, svc.protocols(), p.Config.Defaults, b.Protocol)
		}
		if b.Protocol != ProtoREST && !contains(svc.codecs(), b.Codec) {
			v.violate("service-options-not-honoured", facts, "service %s is configured with codecs %v but its handler received %s", svc.Schema, svc.codecs(), b.Codec)
		}
		v.probe("options-probed")
	}
	return v
}

// effectiveService: a service's options over WithDefaultServiceOptions over the built-in defaults.
func effectiveService(svc *ServicePlan, def *ServicePlan) ServicePlan {
	eff := *svc
	if def != nil {
		if eff.Protocols == nil && !eff.EmptyProtocols {
			eff.Protocols = def.Protocols
		}
		if eff.Codecs == nil && !eff.EmptyCodecs {
			eff.Codecs = def.Codecs
		}
		if eff.Compression == nil && !eff.NoCompression {
			eff.Compression, eff.NoCompression = def.Compression, def.NoCompression
		}
	}
	return eff
}

// c17StillInvalid re-derives the defect from the plan (a shrunk plan may have lost it).
func c17StillInvalid(p *Plan, class string) bool {
	cfg := &p.Config
	switch class {
	case "unknown-codec":
		for _, s := range cfg.Services {
			for _, c := range s.Codecs {
				if c != "proto" && c != "json" && c != "alt" {
					return true
				}
			}
		}
	case "unknown-compression":
		for _, s := range cfg.Services {
			for _, c := range s.Compression {
				if c != "gzip" && c != "deflate" {
					return true
				}
			}
		}
	case "no-protocol":
		for _, s := range cfg.Services {
			if s.EmptyProtocols {
				return true
			}
		}
	case "no-codec":
		for _, s := range cfg.Services {
			if s.EmptyCodecs {
				return true
			}
		}
	case "duplicate-service":
		seen := map[string]bool{}
		for _, s := range cfg.Services {
			if seen[s.Schema] {
				return true
			}
			seen[s.Schema] = true
		}
	case "bad-template":
		for _, r := range cfg.Rules {
			if t, _ := parseRefTemplate(r.Template); t == nil {
				return true
			}
		}
	case "unknown-default-codec":
		return cfg.Defaults != nil && len(cfg.Defaults.Codecs) == 1 && cfg.Defaults.Codecs[0] == "xml"
	default:
		return true // structural classes are not touched by the shrinker's passes
	}
	return false
}

func init() {
	register(&Check{
		ID:    "C17",
		Level: "exploration",
		Rule: "configurations generated by construction over two dynamic services (one without any annotation, whose method names include a prefix pair Ping/PingAll), the generated LibraryService, WithRules sets, service options and default options, in shuffled registration order: " +
			"valid ones, and single-edit invalid ones of 17 classes whose ground truth is the edit (unknown codec/compression, no protocol, no codec, service twice, template outside the grammar, two bindings with one template and method, body/response_body/variable selectors naming no suitable field, " +
			"selector matching no method incl. proper textual prefixes of method names, REST-only service without bindings, nested additional bindings, rule without pattern or selector, unknown codec in the defaults). " +
			"oracle: invalid => NewTranscoder returns an error; valid => no error, and then the simulator probes it: every binding is reachable through the URL the reference encoder builds from its template and reaches exactly that method; an RPC probe per service arrives in a protocol and codec of that service's own options, not the defaults. " +
			"The accept/reject half is a pure predicate. distinct = (class, schedule hash); non-trivial = always",
		Gen:         func(c *Chooser, tier string) *Plan { return genC17(c) },
		Oracle:      c17Oracle,
		Components:  stdComponents,
		Assumptions: []string{"Go map iteration inside NewTranscoder cannot be seeded; every configuration is built once per run and registration order is shuffled by the generator"},
	})
}
