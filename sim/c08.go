package verifsim

import (
	"bytes"
	"fmt"
)

// C08: results do not depend on how bytes are split across reads, writes and flushes.

func atomicOf(p *Plan) *Plan {
	a := p.clone()
	for i := range a.RPCs {
		r := &a.RPCs[i]
		r.Client.Deliveries, r.Client.EOFWithData, r.Client.RW = nil, false, ""
		r.Backend.ReadSizes = []int{1 << 20}
		r.Backend.Resp.WriteMode, r.Backend.Resp.WriteSizes, r.Backend.Resp.EmptyWrites, r.Backend.Resp.FlushEvery = "", nil, false, 0
	}
	a.Sched = SchedPlan{Policy: "seq"}
	a.Pool = PoolPlan{Policy: "lifo"}
	return a
}

func c08Oracle(p *Plan) *Verdict {
	v := &Verdict{}
	atom := Run(atomicOf(p))
	v.absorb(atom)
	seg := Run(p)
	v.absorb(seg)
	v.Trace = seg.World.Log
	facts := scenarioFacts(p, 0)
	v.Class = fmt.Sprintf("%s>%s/%s/%s", facts["form"], facts["target"], facts["path"], facts["shape"])
	if atom.BuildErr != "" || seg.BuildErr != "" {
		return v
	}
	a, s := atom.RPCs[0], seg.RPCs[0]
	if a.Rejected != "" {
		return v
	}
	if atom.Deadlock || atom.StepCap {
		v.Incidental = append(v.Incidental, "atomic run hangs")
		return v
	}
	if seg.Deadlock || seg.StepCap {
		v.violate("hang-under-segmentation", facts, "segmented run did not terminate (%v) while the atomic run did", seg.World.DeadlockAt)
		return v
	}
	if len(a.Backend) > 0 && len(a.Backend[0].Msgs) > 0 && a.Outcome != nil && len(a.Outcome.Msgs) > 0 {
		v.Nontrivial = true
	}
	rc := &p.RPCs[0]
	if rc.Backend.ReadSizes != nil {
		v.probe("read-segmented")
		for _, n := range rc.Backend.ReadSizes {
			if n < 5 {
				v.probe("read-buffer-below-prefix")
			}
		}
	}
	if rc.Client.Deliveries != nil {
		v.probe("delivery-segmented")
	}
	if rc.Backend.Resp.WriteMode != "" {
		v.probe("write-" + rc.Backend.Resp.WriteMode)
	}
	if len(a.Backend) != len(s.Backend) {
		v.violate("dispatch-count-differs", facts, "atomic run dispatched %d times, segmented run %d times", len(a.Backend), len(s.Backend))
		return v
	}
	for i := range a.Backend {
		ab, sb := a.Backend[i], s.Backend[i]
		if !bytes.Equal(ab.Body, sb.Body) || ab.ReadErr != sb.ReadErr {
			if facts["path"] != "reframe" && facts["path"] != "passthrough" && ab.ReadErr == sb.ReadErr && sameStructure(ab, sb) {
				// re-encoded bytes need not be bit-identical (map order); framing and decoded content are
				continue
			}
			v.violate("req-bytes-differ", facts, "handler read %s err=%q; atomic run read %s err=%q", digest(sb.Body), sb.ReadErr, digest(ab.Body), ab.ReadErr)
			return v
		}
	}
	if a.ServePanic != s.ServePanic {
		v.violate("panic-under-segmentation", facts, "segmented: %q atomic: %q", s.ServePanic, a.ServePanic)
		return v
	}
	if a.Outcome != nil && s.Outcome != nil && a.Outcome.canon() != s.Outcome.canon() {
		v.violate("outcome-differs", facts, "segmented outcome %s\natomic outcome %s", s.Outcome.canon(), a.Outcome.canon())
	}
	return v
}

func init() {
	register(&Check{
		ID:    "C08",
		Level: "exploration",
		Rule: "seeded single-RPC scenarios on the dynamic sim service (client form x method shape x service protocol/codec/compression subsets x messages) and REST calls of the streaming methods of the generated ContentService (upload and download through google.api.HttpBody), each run twice: " +
			"(in a third of the runs under a message-size limit just above the largest single message) atomically and under drawn segmentations of the request deliveries, handler read-buffer sizes, handler write pieces/flushes, response-writer flavour, pool and scheduling policy; " +
			"thorough additionally enumerates every one-dimensional segmentation (split offset, piece size, read-buffer size, write mode, flush, writer flavour) on the small corpus that covers every adapter path; " +
			"distinct = (form>target/adapter path/shape, schedule hash); non-trivial = at least one request message decoded by the backend and one response message decoded by the client",
		Gen: func(c *Chooser, tier string) *Plan {
			if c.Prob(0.12) {
				return genContentREST(c)
			}
			p := genScenario(c, ScenOpts{Segment: true, MaxMsgs: 3, MaxBytes: 200})
			if p != nil && c.Prob(0.3) {
				// a limit that every single message fits under in every encoding, but two messages together do not: a bound
				// that is (wrongly) applied per read or per write instead of per message shows up as a split-dependent failure
				largest := 0
				rc := &p.RPCs[0]
				n := refNegotiate(&p.Config.Services[0], rc.Client.Form, rc.Client.Codec, rc.Client.Compression)
				for _, ms := range append(append([]MsgSpec{}, rc.Client.Msgs...), rc.Backend.Resp.Msgs...) {
					// the encodings this message takes on this path: the two peers' own and the transcoder's re-encodings
					for _, codec := range []string{rc.Client.Codec, n.Codec} {
						largest = maxInt(largest, sizeUnderRef(codec, ms.Data))
						largest = maxInt(largest, sizeUnder(codec, ms.Data))
					}
				}
				p.Config.Services[0].MaxMsg = uint32(largest + 64)
			}
			if p != nil && !enveloped(p.RPCs[0].Client.Form) && p.RPCs[0].Client.Compression == "" && len(p.RPCs[0].Client.Msgs) == 1 && c.Prob(0.15) {
				// a limit exactly one byte under the request body: whether that byte is too much must not depend on how the end
				// of the body is told (with the last bytes, or by a read of its own) or on how the body is cut
				if n := sizeUnderRef(p.RPCs[0].Client.Codec, p.RPCs[0].Client.Msgs[0].Data); n > 1 {
					p.Config.Services[0].MaxMsg = uint32(n - 1)
					p.RPCs[0].Client.DeclareCL = Pick(c, "none", "none", "")
				}
			}
			return p
		},
		// thorough: on the small corpus of C09 (every adapter path, one or two messages each way, plus a variant of each
		// stream with an empty message in the middle) every one-dimensional segmentation is enumerated: the request
		// delivered in two pieces split at every offset and in equal pieces of 1..8 bytes; the handler reading with
		// buffers of 1..8, 16 and 64 bytes; the handler writing frame by frame, prefix and payload apart, and in pieces
		// of 1..8 bytes, with and without a flush after every piece; each response-writer flavour.
		Exhaustive: func(tier string) []*Plan {
			var out []*Plan
			add := func(base *Plan, edit func(r *RPCPlan)) {
				p := base.clone()
				p.Note = ""
				edit(&p.RPCs[0])
				out = append(out, p)
			}
			var corpus []*Plan
			for _, base := range c09Corpus() {
				corpus = append(corpus, base)
				rc := &base.RPCs[0]
				if len(rc.Client.Msgs) > 1 || len(rc.Backend.Resp.Msgs) > 1 {
					v := base.clone()
					if n := len(v.RPCs[0].Client.Msgs); n > 1 {
						v.RPCs[0].Client.Msgs = append([]MsgSpec{v.RPCs[0].Client.Msgs[0], {Data: []byte{}, Compressed: true}}, v.RPCs[0].Client.Msgs[1:]...)
					}
					if n := len(v.RPCs[0].Backend.Resp.Msgs); n > 1 {
						v.RPCs[0].Backend.Resp.Msgs = append([]MsgSpec{v.RPCs[0].Backend.Resp.Msgs[0], {Data: []byte{}, Compressed: false}}, v.RPCs[0].Backend.Resp.Msgs[1:]...)
					}
					corpus = append(corpus, v)
				}
			}
			for _, base := range corpus {
				base.Pool.Poison = true
				body, _, st := effectiveRequestBody(&base.Config, &base.RPCs[0])
				if st.Rejected != "" {
					continue
				}
				for k := 1; k < len(body); k++ {
					k := k
					add(base, func(r *RPCPlan) { r.Client.Deliveries = []int{k, len(body)} })
				}
				for n := 1; n <= 8; n++ {
					n := n
					add(base, func(r *RPCPlan) { r.Client.Deliveries = []int{n} })
					add(base, func(r *RPCPlan) { r.Client.Deliveries, r.Client.EOFWithData = []int{n}, true })
					add(base, func(r *RPCPlan) { r.Backend.ReadSizes = []int{n} })
					for _, fl := range []int{0, 1} {
						fl := fl
						add(base, func(r *RPCPlan) {
							r.Backend.Resp.WriteMode, r.Backend.Resp.WriteSizes, r.Backend.Resp.FlushEvery = "sizes", []int{n}, fl
						})
					}
				}
				for _, n := range []int{16, 64} {
					n := n
					add(base, func(r *RPCPlan) { r.Backend.ReadSizes = []int{n} })
				}
				for _, mode := range []string{"frames", "prefix-payload"} {
					for _, fl := range []int{0, 1} {
						mode, fl := mode, fl
						add(base, func(r *RPCPlan) { r.Backend.Resp.WriteMode, r.Backend.Resp.FlushEvery = mode, fl })
						add(base, func(r *RPCPlan) {
							r.Backend.Resp.WriteMode, r.Backend.Resp.FlushEvery, r.Backend.Resp.EmptyWrites = mode, fl, true
						})
					}
				}
				for _, rw := range []string{"flusherr", "unwrap"} { // (a writer that cannot flush at all is refused by the transcoder: not a segmentation)
					rw := rw
					add(base, func(r *RPCPlan) { r.Client.RW = rw })
				}
			}
			return out
		},
		Oracle:     c08Oracle,
		Components: stdComponents,
		Assumptions: []string{"SimRW models the documented net/http ResponseWriter contract; the real net/http and http2 servers are not run",
			"reference encoders/decoders follow my reading of the Connect, gRPC and gRPC-Web specifications"},
	})
}

// sameStructure: identical frame flags and identical decoded messages.
func sameStructure(a, b *BackendObs) bool {
	if a.Stream != b.Stream || !eqBytesSeq(a.Msgs, b.Msgs) || len(a.Undecodable) != len(b.Undecodable) {
		return false
	}
	if a.Stream {
		fa, ra := splitFrames(a.Body)
		fb, rb := splitFrames(b.Body)
		if len(fa) != len(fb) || len(ra) != len(rb) {
			return false
		}
		for i := range fa {
			if fa[i].Flags != fb[i].Flags {
				return false
			}
		}
	}
	return true
}

// genContentREST draws a REST call of a *streaming* method of the generated ContentService, where google.api.HttpBody
// carries the stream: an upload (client stream; the request body is the file) or a download (server stream; the response
// body is the concatenation of the messages' data), towards an RPC backend, under drawn segmentations of all three streams.
func genContentREST(c *Chooser) *Plan {
	svc := ServicePlan{Schema: "content", MaxMsg: Pick(c, uint32(1<<20), 1<<17), Protocols: genSubset(c, allTargetProtocols, true)}
	if c.Bool() {
		svc.Codecs = Pick(c, []string{"proto"}, []string{"json"}, []string{"proto", "json"})
	}
	name := Pick(c, "a.bin", "dir/file.txt", "x", "deep/er/path/f")
	hb := func(ct string, data []byte) []byte {
		// google.api.HttpBody{content_type: 1, data: 2}
		var b []byte
		if ct != "" {
			b = append(b, 0x0a, byte(len(ct)))
			b = append(b, ct...)
		}
		if len(data) > 0 {
			b = append(b, 0x12)
			b = appendVarint(b, uint64(len(data)))
			b = append(b, data...)
		}
		return b
	}
	field := func(num int, payload []byte) []byte {
		b := []byte{byte(num<<3 | 2)}
		b = appendVarint(b, uint64(len(payload)))
		return append(b, payload...)
	}
	var cp ClientPlan
	var bp BackendPlan
	if c.Bool() {
		n := Pick(c, 0, 1, 7, 300, c.Range(1, 3000), 70000)
		cp = ClientPlan{Form: FormREST, HTTP: Pick(c, 1, 2), Service: "content", Method: "Upload", HTTPMethod: "POST", Path: "/" + name + ":upload",
			ContentType: Pick(c, "application/octet-stream", "text/plain", "image/png"), RawBody: c.Bytes(n), HasRawBody: true, DeclareCL: Pick(c, "", "none", "none")}
		cp.Msgs = []MsgSpec{{Data: []byte{}}}
		bp.Resp.Msgs = []MsgSpec{{Data: []byte{}}} // google.protobuf.Empty
	} else {
		cp = ClientPlan{Form: FormREST, HTTP: Pick(c, 1, 2), Service: "content", Method: "Download", HTTPMethod: "GET", Path: "/" + name + ":download"}
		for i, k := 0, c.Range(0, 4); i < k; i++ {
			data := c.Bytes(Pick(c, 0, 1, 40, c.Range(1, 2000)))
			ct := "application/octet-stream"
			if i > 0 && c.Bool() {
				ct = ""
			}
			bp.Resp.Msgs = append(bp.Resp.Msgs, MsgSpec{Data: field(1, hb(ct, data)), Compressed: c.Bool()})
		}
		bp.Resp.Compression = Pick(c, "", "gzip")
	}
	cp.Accept = genSubset(c, allCompressions, false)
	bp.Resp.TrailerStyle = Pick(c, "announce", "prefix")
	cp.Deliveries = genSegSizes(c)
	cp.EOFWithData = c.Prob(0.3)
	bp.ReadSizes = genSegSizes(c)
	switch c.Intn(4) {
	case 0:
	case 1:
		bp.Resp.WriteMode = "frames"
	case 2:
		bp.Resp.WriteMode = "prefix-payload"
	default:
		bp.Resp.WriteMode, bp.Resp.WriteSizes = "sizes", genSegSizes(c)
		if bp.Resp.WriteSizes == nil {
			bp.Resp.WriteSizes = []int{1}
		}
	}
	bp.Resp.FlushEvery = Pick(c, 0, 1, 2)
	cp.RW = Pick(c, "", "", "flusherr", "unwrap", "buffering")
	if n := len(cp.RawBody); n > 2048 {
		k := n/512 + 1
		for _, sizes := range [][]int{cp.Deliveries, bp.ReadSizes} {
			for i := range sizes {
				sizes[i] *= k
			}
		}
	}
	return &Plan{Config: ConfigPlan{Services: []ServicePlan{svc}}, RPCs: []RPCPlan{{Client: cp, Backend: bp}}, Sched: genSched(c), Pool: genPool(c), Note: "rest-stream"}
}

func appendVarint(b []byte, v uint64) []byte {
	for v >= 0x80 {
		b = append(b, byte(v)|0x80)
		v >>= 7
	}
	return append(b, byte(v))
}
