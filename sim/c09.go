package verifsim

import (
	"bytes"
	"fmt"
	"io"
	"strings"

	"google.golang.org/protobuf/proto"
	"google.golang.org/protobuf/reflect/protoreflect"
)

// C09: truncated or malformed streams never surface as success. Fault enumeration.

// refStream is what an independent, strict reader makes of a byte stream.
type refStream struct {
	Msgs      [][]byte // canonical bytes of the messages that are complete and valid, in order
	Malformed string   // "" if the whole stream is well-formed
}

// refParseStream parses body as the given wire form would require. flagsOK says which flag bytes are legal data
// frames and which end the stream. endedCleanly=false means the transport reported an error / short body.
func refParseStream(envelopedForm bool, dataFlag func(byte) (ok, compressed, end bool), codec, comp string, body []byte, endedCleanly bool, md protoreflect.MessageDescriptor) refStream {
	var rs refStream
	decode := func(payload []byte) bool {
		m := newMessageFor(md)
		if err := refUnmarshal(codec, payload, m); err != nil {
			rs.Malformed = "payload does not decode: " + err.Error()
			return false
		}
		rs.Msgs = append(rs.Msgs, canonBytes(m))
		return true
	}
	if !envelopedForm {
		if !endedCleanly {
			rs.Malformed = "body ended with a transport error"
			return rs
		}
		payload := body
		if comp != "" && len(payload) > 0 {
			var err error
			payload, err = refDecompress(comp, payload)
			if err != nil {
				rs.Malformed = "body does not decompress: " + err.Error()
				return rs
			}
		}
		decode(payload)
		return rs
	}
	frames, rest := splitFrames(body)
	for i, f := range frames {
		ok, compressed, end := dataFlag(f.Flags)
		if !ok {
			rs.Malformed = fmt.Sprintf("frame %d has invalid flags %#x", i, f.Flags)
			return rs
		}
		if end {
			if i != len(frames)-1 || len(rest) > 0 {
				rs.Malformed = "data after the end frame"
			}
			return rs
		}
		payload := f.Payload
		if compressed && comp != "" { // without a declared compression the bit has nothing to refer to: treated as plain data (abstention)
			var err error
			payload, err = refDecompress(comp, payload)
			if err != nil {
				rs.Malformed = fmt.Sprintf("frame %d does not decompress: %v", i, err)
				return rs
			}
		}
		if !decode(payload) {
			return rs
		}
	}
	if len(rest) > 0 {
		rs.Malformed = fmt.Sprintf("stream ends inside a frame (%d stray bytes)", len(rest))
	} else if !endedCleanly {
		rs.Malformed = "stream ended with a transport error"
	}
	return rs
}

func requestFlag(b byte) (ok, compressed, end bool) { return b == 0 || b == 1, b == 1, false }

// effective request body as the transcoder will see it, after cut faults and Content-Length semantics
func effectiveRequestBody(cfg *ConfigPlan, rp *RPCPlan) (body []byte, clean bool, st *rpcState) {
	st = &rpcState{plan: rp, CutAt: -1}
	prepareRPC(st, cfg)
	if st.Rejected != "" {
		return nil, false, st
	}
	pieces, endErr := bodyPieces(st)
	for _, p := range pieces {
		body = append(body, p...)
	}
	return body, endErr == io.EOF, st
}

func isPrefixOf(a, b [][]byte, md protoreflect.MessageDescriptor) bool {
	if len(a) > len(b) {
		return false
	}
	for i := range a {
		if !msgEqualBytes(md, a[i], b[i]) {
			return false
		}
	}
	return true
}

func c09Oracle(p *Plan) *Verdict {
	v := &Verdict{}
	full := scenarioFacts(p, 0)
	v.Class = fmt.Sprintf("%s>%s/%s/%s/%s", full["form"], full["target"], full["path"], full["shape"], p.Note)
	ck := "unenveloped-client"
	if enveloped(p.RPCs[0].Client.Form) {
		ck = "enveloped-client"
	}
	facts := map[string]string{"fault": p.Note, "path": full["path"], "rpath": full["rpath"], "client": ck, "target": full["target"]}
	if facts["path"] == "passthrough" {
		return v
	}
	rc := &p.RPCs[0]
	_, md := planMethod(p, 0)
	if md == nil {
		return v
	}
	body, clean, pst := effectiveRequestBody(&p.Config, rc)
	if pst.Rejected != "" {
		return v
	}
	r := Run(p)
	v.absorb(r)
	if r.World != nil {
		v.Trace = r.World.Log
	}
	if r.BuildErr != "" {
		return v
	}
	st := r.RPCs[0]
	v.fault(p.Note)
	v.Nontrivial = true
	if r.Deadlock || r.StepCap {
		v.violate("hang", facts, "fault %s: the run did not terminate: %v", p.Note, r.World.DeadlockAt)
		return v
	}
	if st.ServePanic != "" {
		f := copyFacts(facts)
		f["site"] = firstSite(st.ServePanicStack)
		v.violate("panic", f, "fault %s: ServeHTTP panicked: %s at %s", p.Note, st.ServePanic, st.ServePanicStack)
		return v
	}
	o := st.Outcome
	if o == nil {
		v.violate("no-response", facts, "no response")
		return v
	}
	// ---- request side
	req := refParseStream(enveloped(rc.Client.Form), requestFlag, rc.Client.Codec, rc.Client.Compression, body, clean, md.Input())
	if rc.Client.Form == FormConnectGet {
		req = refStream{}
		if len(rc.Client.Msgs) > 0 {
			req.Msgs = [][]byte{rc.Client.Msgs[0].Data}
		}
	}
	if !md.IsStreamingClient() && req.Malformed == "" && len(req.Msgs) != 1 {
		req.Malformed = fmt.Sprintf("unary request with %d messages", len(req.Msgs))
	}
	if req.Malformed != "" {
		v.probe("request-malformed")
		if o.sawSuccess() {
			v.violate("malformed-request-succeeded", facts, "request stream is malformed (%s) but the client saw success", req.Malformed)
		}
	}
	for _, b := range st.Backend {
		if !isPrefixOf(b.Msgs, req.Msgs, md.Input()) {
			v.violate("phantom-request-message", facts, "backend decoded %d complete messages; the client only finished %d valid ones (%s); they are not a prefix", len(b.Msgs), len(req.Msgs), req.Malformed)
			break
		}
	}
	// ---- response side: what did the backend actually put on the wire?
	respMalformed := ""
	if len(st.Backend) == 1 {
		b := st.Backend[0]
		rp := &rc.Backend.Resp
		scripted := len(b.Undecodable) == 0 // otherwise the backend answered with its own error
		if scripted && (rp.CutAt > 0 || rp.DeclareCL != "" || p.Note == "resp-flag" || p.Note == "resp-len" || p.Note == "resp-bitflip" || p.Note == "resp-end-garbage" || p.Note == "resp-payload" || rp.OmitEnd) {
			respMalformed = respFaultMalformed(p, b, st)
		}
		if respMalformed != "" {
			v.probe("response-malformed")
			if o.sawSuccess() {
				v.violate("malformed-response-succeeded", facts, "backend response is malformed (%s) but the client saw success with %d messages", respMalformed, len(o.Msgs))
			}
		}
	}
	// ---- the response itself must be terminated and well-formed
	payloadFault := p.Note == "resp-bitflip" || p.Note == "req-bitflip" || p.Note == "resp-payload" || p.Note == "req-payload"
	if rp := &rc.Backend.Resp; p.Note == "resp-cut" && len(st.Backend) == 1 && !st.Backend[0].Stream && rp.DeclareCL == "" {
		// an unframed body without a declared length that stops early is, on the wire, a complete body whose compressed
		// payload is corrupt: the same thing as a flipped payload bit
		payloadFault = true
	}
	if o.Kind == "invalid" || len(o.Problems) > 0 {
		side := "request-fault"
		if respMalformed != "" {
			side = "response-fault"
		}
		seen := map[string]bool{}
		for _, prob := range o.Problems {
			if payloadFault && side == "response-fault" && full["rpath"] == "reframe" && (strings.Contains(prob, "does not decompress") || (p.Note == "resp-payload" && strings.Contains(prob, "does not decode as"))) {
				// the re-framing path does not look inside payloads: the corrupt payload arrives, well framed, and the client's own decompressor rejects it
				continue
			}
			if payloadFault && side == "response-fault" && (strings.Contains(prob, "does not decompress") || strings.Contains(prob, "does not decode as")) && relayedVerbatim(p, st) {
				// the same on paths with a side without envelopes (REST, Connect unary) when codec and compression need no
				// conversion: the backend's payload is relayed byte for byte, unopened, and the client's own decoder rejects it
				v.probe("payload-fault-relayed-verbatim")
				continue
			}
			f := copyFacts(facts)
			f["side"] = side
			rule := classifyResponseProblem(prob, problemClass(prob), f)
			if rule == "invalid-client-response" {
				rule = "malformed-error-response"
			}
			if seen[rule+f["kind"]] {
				continue
			}
			seen[rule+f["kind"]] = true
			v.violate(rule, f, "after fault %s the client's response is not well-formed: %s", p.Note, prob)
		}
		if o.Kind == "invalid" && len(o.Problems) == 0 {
			f := copyFacts(facts)
			f["side"], f["kind"] = side, "unterminated"
			v.violate("malformed-error-response", f, "after fault %s the client's response is not terminated", p.Note)
		}
	}
	return v
}

// relayedVerbatim: the faulty payload the backend wrote is, byte for byte, what the client received as its (only) message:
// the whole body for clients without envelopes, or one well-formed envelope around exactly those bytes.
func relayedVerbatim(p *Plan, st *rpcState) bool {
	rc := &p.RPCs[0]
	rp := &rc.Backend.Resp
	var faulty []byte
	emptyMeant := false
	switch {
	case p.Note == "resp-bitflip" || p.Note == "resp-payload":
		for _, m := range rp.Msgs {
			if m.RawPayload != nil {
				faulty = m.RawPayload
				emptyMeant = len(faulty) == 0 // an empty payload the backend's codec does not take for a message
			}
		}
	case p.Note == "resp-cut" && len(st.respPayloads) == 1 && rp.CutAt > 0 && rp.CutAt < len(st.respPayloads[0]):
		faulty = st.respPayloads[0][:rp.CutAt]
	}
	if (len(faulty) == 0 && !emptyMeant) || st.rw == nil || len(st.Backend) != 1 {
		return false
	}
	got := st.rw.Visible
	if !enveloped(rc.Client.Form) {
		return bytes.Equal(got, faulty)
	}
	frames, _ := splitFrames(got)
	for _, f := range frames {
		if f.Flags&^1 == 0 && bytes.Equal(f.Payload, faulty) {
			return true
		}
	}
	return false
}

// respFaultMalformed decides, from the script, whether the bytes the backend put on the wire are malformed for its protocol.
func respFaultMalformed(p *Plan, b *BackendObs, st *rpcState) string {
	rp := &p.RPCs[0].Backend.Resp
	switch {
	case rp.OmitEnd:
		if !b.Stream {
			return "" // un-enveloped protocols have no end marker to omit
		}
		return "no end of stream"
	case rp.CutAt > 0 && rp.CutPlusEnd:
		// the body stops early and the trailers say OK: malformed unless the cut falls on a frame boundary
		for _, e := range st.respBounds {
			if e == rp.CutAt {
				return "" // fewer messages than scripted, but a well-formed stream
			}
		}
		return fmt.Sprintf("response cut after %d bytes (inside a frame) under OK trailers", rp.CutAt)
	case rp.CutAt > 0:
		if !b.Stream && rp.DeclareCL == "" {
			// without framing or a declared length a shorter body is just a shorter body, unless it no longer decodes
			if len(st.respPayloads) == 1 && rp.CutAt < len(st.respPayloads[0]) {
				_, md := planMethod(p, 0)
				cut := st.respPayloads[0][:rp.CutAt]
				comp := ""
				if st.respComp != "" && rp.Msgs[0].Compressed {
					comp = st.respComp
				}
				rs := refParseStream(false, nil, b.Codec, comp, cut, true, md.Output())
				if rs.Malformed != "" {
					return "truncated body: " + rs.Malformed
				}
			}
			return ""
		}
		return fmt.Sprintf("response cut after %d bytes", rp.CutAt)
	case p.Note == "resp-flag":
		for _, m := range rp.Msgs {
			if m.Flags != nil {
				fl := byte(*m.Flags)
				valid := fl == 0 || fl == 1
				if b.Protocol == ProtoGRPCWeb && (fl == 0x80 || fl == 0x81) {
					return "" // changes meaning, still a legal frame: abstain
				}
				if b.Protocol == ProtoConnect && (fl == 2 || fl == 3) {
					return ""
				}
				if !valid {
					return fmt.Sprintf("invalid flags %#x", fl)
				}
				if fl == 1 && !m.Compressed {
					return "" // compressed bit on raw data: may or may not decompress; covered by bitflip faults
				}
			}
		}
		return ""
	case p.Note == "resp-len":
		return "declared frame length does not match the payload"
	case p.Note == "resp-end-garbage":
		return "the end-of-stream frame does not carry an end of stream"
	case p.Note == "resp-payload":
		_, md := planMethod(p, 0)
		for _, m := range rp.Msgs {
			if m.RawPayload != nil {
				if err := refUnmarshal(b.Codec, m.RawPayload, newMessageFor(md.Output())); err != nil {
					return "payload does not decode in the backend's codec: " + err.Error()
				}
			}
		}
		return "" // the variant happens to be a valid message
	case p.Note == "resp-bitflip":
		for _, m := range rp.Msgs {
			if m.RawPayload != nil {
				if _, err := refDecompress(p.RPCs[0].Backend.Resp.Compression, m.RawPayload); err != nil {
					return "corrupt compressed payload: " + err.Error()
				}
			}
		}
		return "" // the flipped bit is in a field no checksum covers: still a valid payload
	case rp.DeclareCL != "" && rp.DeclareCL != "exact":
		return "declared Content-Length " + rp.DeclareCL + " not honoured"
	}
	return ""
}

// c09PayloadVariants: replacements for one uncompressed message payload that keep the envelope (or the declared length)
// truthful: only the payload itself is wrong. Whether a variant still decodes is decided by the reference decoder.
func c09PayloadVariants(payload []byte) [][]byte {
	out := [][]byte{{0xff}, {}, append(append([]byte(nil), payload...), 0x80)}
	if len(payload) > 1 {
		out = append(out, append([]byte(nil), payload[:len(payload)-1]...))
		flipped := append([]byte(nil), payload...)
		flipped[0] ^= 0x07 // another wire type / another opening character
		out = append(out, flipped)
	}
	return out
}

// c09EndVariants: end-of-stream payloads no client can take for a success (Connect: not an end-stream JSON object;
// gRPC-Web: a trailer block without a usable grpc-status).
func c09EndVariants(protocol string) [][]byte {
	if protocol == ProtoConnect {
		return [][]byte{[]byte("{"), []byte("not json"), []byte(`{"error":17}`), {}, []byte("[]"), {0xff, 0x00}, []byte(`{"error":{"code":"nope"}`),
			// a complete JSON value that is not the whole payload
			[]byte(`{}x`), []byte(`{}{"error":{"code":"internal"}}`), []byte(`{"metadata":{}},"error":{"code":"internal"}}`)}
	}
	return [][]byte{{}, []byte("grpc-status 0\r\n"), []byte("grpc-message: fine\r\n"), []byte("grpc-status: abc\r\n"), {0xff, 0x00}, []byte("grpc-status:\r\n")}
}

// ---- corpus and enumeration

type c09Scenario struct {
	form, method, target, ccodec, scodec, ccomp, scomp string
}

func c09Corpus() []*Plan {
	var out []*Plan
	forms := []string{FormGRPC, FormGRPCWeb, FormConnectStream, FormConnectUnary}
	methods := map[string][]string{
		FormGRPC: {"Unary", "ClientStream", "ServerStream", "Bidi"}, FormGRPCWeb: {"Unary", "ClientStream", "Bidi"},
		FormConnectStream: {"ClientStream", "ServerStream", "Bidi"}, FormConnectUnary: {"Unary"},
	}
	type variant struct {
		ccodec, scodec, ccomp string
		scomps                []string
	}
	variants := []variant{
		{"proto", "proto", "", []string{}},              // reframe
		{"json", "proto", "", []string{}},               // reencode
		{"proto", "proto", "gzip", []string{"gzip"}},    // reframe, compressed
		{"proto", "proto", "gzip", []string{}},          // decompress only
		{"json", "alt", "deflate", []string{"deflate"}}, // reencode + recompress
	}
	for _, form := range forms {
		for _, method := range methods[form] {
			for _, target := range allTargetProtocols {
				for _, va := range variants {
					svc := simSvc([]string{target}, []string{va.scodec}, va.scomps)
					svc.MaxMsg = 1 << 20 // declared lengths are allocated up front; keep injected huge lengths cheap
					sch := getSchema("sim")
					md := sch.method(method)
					nreq, nresp := 1, 1
					if md.IsStreamingClient() {
						nreq = 2
					}
					if md.IsStreamingServer() {
						nresp = 2
					}
					var msgs []MsgSpec
					for i := 0; i < nreq; i++ {
						msgs = append(msgs, MsgSpec{Data: []byte{0x18, byte(i + 1), 0x72, 0x03, 'r', 'e', 'q'}, Compressed: true})
					}
					cp := simClient(form, method, va.ccodec, va.ccomp, msgs...)
					rp := RespPlan{TrailerStyle: "prefix", Compression: va.ccomp}
					for i := 0; i < nresp; i++ {
						rp.Msgs = append(rp.Msgs, MsgSpec{Data: []byte{0x18, byte(i + 11), 0x72, 0x04, 'r', 'e', 's', 'p'}, Compressed: true})
					}
					p := basePlan(svc, cp, BackendPlan{Resp: rp})
					p.Pool.Poison = false
					out = append(out, p)
				}
			}
		}
	}
	// REST on either side (the generic corpus above has neither): a REST client of the bound method against each RPC
	// target, and RPC clients against a REST-only service. With Connect unary on the other side neither leg has envelopes.
	restVariants := []variant{
		{"json", "json", "", []string{}},
		{"json", "proto", "", []string{}},
		{"json", "json", "gzip", []string{"gzip"}},
		{"json", "json", "gzip", []string{}},
	}
	reqData := []byte{0x18, 1, 0x72, 0x03, 'r', 'e', 'q'}
	respMsg := MsgSpec{Data: []byte{0x18, 11, 0x72, 0x04, 'r', 'e', 's', 'p'}, Compressed: true}
	sch := getSchema("sim")
	for _, target := range allTargetProtocols {
		for _, va := range restVariants {
			svc := simSvc([]string{target}, []string{va.scodec}, va.scomps)
			svc.MaxMsg = 1 << 20
			cp := simClient(FormREST, "RestAll", "json", va.ccomp, MsgSpec{Data: reqData, Compressed: true})
			cp.HTTPMethod, cp.Path = "POST", "/sim/v1/all"
			rm := newMessageFor(sch.method("RestAll").Input())
			_ = proto.Unmarshal(reqData, rm)
			cp.RestJSON, _ = refMarshal("json", rm)
			p := basePlan(svc, cp, BackendPlan{Resp: RespPlan{TrailerStyle: "prefix", Compression: va.ccomp, Msgs: []MsgSpec{respMsg}}})
			p.Pool.Poison = false
			out = append(out, p)
		}
	}
	for _, form := range []string{FormGRPC, FormGRPCWeb, FormConnectUnary} {
		for _, va := range []variant{{"proto", "json", "", []string{}}, {"json", "json", "", []string{}}, {"json", "json", "gzip", []string{"gzip"}}, {"proto", "json", "gzip", []string{}}} {
			svc := simSvc([]string{ProtoREST}, []string{va.scodec}, va.scomps)
			svc.MaxMsg = 1 << 20
			cp := simClient(form, "RestAll", va.ccodec, va.ccomp, MsgSpec{Data: reqData, Compressed: true})
			p := basePlan(svc, cp, BackendPlan{Resp: RespPlan{TrailerStyle: "prefix", Compression: va.ccomp, Msgs: []MsgSpec{respMsg}}})
			p.Pool.Poison = false
			out = append(out, p)
		}
	}
	return out
}

// c09Mutations enumerates every single fault of the catalogue on one scenario.
func c09Mutations(base *Plan, sample *Chooser, keep float64) []*Plan {
	var out []*Plan
	add := func(note string, edit func(p *Plan)) {
		if sample != nil && !sample.Prob(keep) {
			return
		}
		p := base.clone()
		p.Note = note
		edit(p)
		out = append(out, p)
	}
	rc := &base.RPCs[0]
	body, _, st := effectiveRequestBody(&base.Config, rc)
	if st.Rejected != "" {
		return nil
	}
	bounds := st.rendered.Bounds
	// request cut points
	for off := 0; off < len(body); off++ {
		off := off
		add("req-cut-eof", func(p *Plan) { p.RPCs[0].Client.Faults = []Fault{{Kind: "cut-eof", At: off}} })
		add("req-cut-err", func(p *Plan) { p.RPCs[0].Client.Faults = []Fault{{Kind: "cut-err", At: off}} })
	}
	if enveloped(rc.Client.Form) {
		start := 0
		for fi, end := range bounds {
			fi, s0 := fi, start
			for fl := 0; fl < 256; fl++ {
				fl := fl
				if (fl == 0 || fl == 1) && (fl == 1) == (body[s0] == 1) {
					continue
				}
				add("req-flag", func(p *Plan) { f := fl; p.RPCs[0].Client.Msgs[fi].Flags = &f })
			}
			for _, d := range []int{1, -1, 3, 1 << 19, 1 << 21} {
				d := d
				add("req-len", func(p *Plan) { p.RPCs[0].Client.Msgs[fi].LenDelta = d })
			}
			if body[s0] == 0 && rc.Client.Form != FormConnectGet {
				for _, raw := range c09PayloadVariants(body[s0+5 : end]) {
					raw := raw
					add("req-payload", func(p *Plan) {
						p.RPCs[0].Client.Msgs[fi].RawPayload, p.RPCs[0].Client.Msgs[fi].HasRaw, p.RPCs[0].Client.Msgs[fi].Compressed = raw, true, false
					})
				}
			}
			if body[s0] == 1 {
				payload := append([]byte(nil), body[s0+5:end]...)
				for bit := 0; bit < len(payload)*8; bit++ {
					bit := bit
					add("req-bitflip", func(p *Plan) {
						raw := append([]byte(nil), body...)
						raw[s0+5+bit/8] ^= 1 << (bit % 8)
						p.RPCs[0].Client.RawBody, p.RPCs[0].Client.HasRawBody = raw, true
					})
				}
			}
			start = end
		}
	} else {
		for _, d := range []string{"+1", "-1", "+5"} {
			d := d
			add("req-cl", func(p *Plan) { p.RPCs[0].Client.DeclareCL = d })
		}
		if rc.Client.Compression == "" && rc.Client.Form != FormConnectGet {
			for _, raw := range c09PayloadVariants(body) {
				raw := raw
				add("req-payload", func(p *Plan) { p.RPCs[0].Client.RawBody, p.RPCs[0].Client.HasRawBody = raw, true })
			}
		}
		if rc.Client.Compression != "" {
			for bit := 0; bit < len(body)*8; bit++ {
				bit := bit
				add("req-bitflip", func(p *Plan) {
					raw := append([]byte(nil), body...)
					raw[bit/8] ^= 1 << (bit % 8)
					p.RPCs[0].Client.RawBody, p.RPCs[0].Client.HasRawBody = raw, true
				})
			}
		}
	}
	// response side: learn the fault-free response body length from a dry run
	dry := Run(base)
	if len(dry.RPCs) == 1 && len(dry.RPCs[0].Backend) == 1 {
		b := dry.RPCs[0].Backend[0]
		n := dry.RPCs[0].respLen
		for off := 1; off < n; off++ {
			off := off
			add("resp-cut", func(p *Plan) { p.RPCs[0].Backend.Resp.CutAt = off })
		}
		add("resp-omit-end", func(p *Plan) { p.RPCs[0].Backend.Resp.OmitEnd = true })
		c09RespExtras(add, rc, b, dry.RPCs[0])
		if b.Protocol == ProtoGRPC {
			// gRPC tells the outcome out of band: a body that stops early under trailers that still say OK
			for off := 1; off < n; off++ {
				off := off
				add("resp-cut-ok-trailers", func(p *Plan) { p.RPCs[0].Backend.Resp.CutAt, p.RPCs[0].Backend.Resp.CutPlusEnd = off, true })
			}
		}
		if b.Stream {
			for mi := range rc.Backend.Resp.Msgs {
				mi := mi
				for fl := 2; fl < 256; fl++ {
					fl := fl
					add("resp-flag", func(p *Plan) { f := fl; p.RPCs[0].Backend.Resp.Msgs[mi].Flags = &f })
				}
				for _, d := range []int{1, -1, 3, 1 << 19, 1 << 21} {
					d := d
					add("resp-len", func(p *Plan) { p.RPCs[0].Backend.Resp.Msgs[mi].LenDelta = d })
				}
			}
		} else {
			for _, d := range []string{"+1", "-1", "+5", "-6"} {
				d := d
				add("resp-cl", func(p *Plan) { p.RPCs[0].Backend.Resp.DeclareCL = d })
			}
		}
		if dry.RPCs[0].respComp != "" {
			for mi := range rc.Backend.Resp.Msgs {
				mi := mi
				enc := dry.RPCs[0].respPayloads
				if mi >= len(enc) {
					continue
				}
				payload := enc[mi]
				for bit := 0; bit < len(payload)*8; bit++ {
					bit := bit
					add("resp-bitflip", func(p *Plan) {
						raw := append([]byte(nil), payload...)
						raw[bit/8] ^= 1 << (bit % 8)
						one := 1
						p.RPCs[0].Backend.Resp.Msgs[mi].RawPayload = raw
						if b.Stream {
							p.RPCs[0].Backend.Resp.Msgs[mi].Flags = &one
						}
					})
				}
			}
		}
	}
	return out
}

// c09RespExtras: faults in what the backend says rather than in how much of it arrives: an end-of-stream frame whose
// payload is not an end of stream (protocols that tell the outcome in the body), and message payloads that the backend's
// own codec cannot decode although their envelope (or the body's length) is truthful.
func c09RespExtras(add func(string, func(*Plan)), rc *RPCPlan, b *BackendObs, dry *rpcState) {
	if b.Stream && (b.Protocol == ProtoConnect || b.Protocol == ProtoGRPCWeb) {
		for _, raw := range c09EndVariants(b.Protocol) {
			raw := raw
			add("resp-end-garbage", func(p *Plan) { p.RPCs[0].Backend.Resp.EndRaw, p.RPCs[0].Backend.Resp.HasEndRaw = raw, true })
		}
		// the body goes on after a well-formed end of stream (in the same Write, or in the next): whether the RPC still
		// counts as a success is left open; it has to end, and end well-formed
		for _, raw := range [][]byte{{0}, envelope(0, []byte{0x18, 0x07}), envelope(2, []byte("{}")), envelope(0x80, nil)} {
			for _, mode := range []string{"whole", "frames"} {
				raw, mode := raw, mode
				add("resp-after-end", func(p *Plan) { p.RPCs[0].Backend.Resp.AfterEnd, p.RPCs[0].Backend.Resp.WriteMode = raw, mode })
			}
		}
	}
	for mi := range rc.Backend.Resp.Msgs {
		mi := mi
		if mi >= len(dry.respPayloads) || (dry.respComp != "" && rc.Backend.Resp.Msgs[mi].Compressed) {
			continue
		}
		for _, raw := range c09PayloadVariants(dry.respPayloads[mi]) {
			raw := raw
			add("resp-payload", func(p *Plan) {
				m := &p.RPCs[0].Backend.Resp.Msgs[mi]
				m.RawPayload, m.HasRaw, m.Compressed = raw, true, false
			})
		}
	}
}

// c09Boundary lists the cuts that land on or next to a frame boundary of one scenario: inside an envelope prefix, right
// after it (the announced payload never starts), one byte into the payload and one byte before its end, in both
// directions. Off-by-one and end-of-input mistakes live at these offsets, so the quick tier draws half of its faults here.
func c09Boundary(base *Plan) []*Plan {
	var out []*Plan
	add := func(note string, edit func(p *Plan)) {
		p := base.clone()
		p.Note = note
		edit(p)
		out = append(out, p)
	}
	near := func(prefixes, bounds []int, total int) []int {
		seen := map[int]bool{}
		var offs []int
		put := func(o int) {
			if o > 0 && o < total && !seen[o] {
				seen[o] = true
				offs = append(offs, o)
			}
		}
		for i, e := range bounds {
			s0 := 0
			if i < len(prefixes) {
				s0 = prefixes[i]
			} else if i > 0 {
				s0 = bounds[i-1]
			}
			for _, o := range []int{s0 + 1, s0 + 4, s0 + 5, s0 + 6, e - 1} {
				if o <= e {
					put(o)
				}
			}
		}
		put(1)
		put(total - 1)
		return offs
	}
	rc := &base.RPCs[0]
	body, _, st := effectiveRequestBody(&base.Config, rc)
	if st.Rejected != "" {
		return nil
	}
	var starts []int
	if enveloped(rc.Client.Form) {
		s0 := 0
		for _, e := range st.rendered.Bounds {
			starts = append(starts, s0)
			s0 = e
		}
		for _, off := range near(starts, st.rendered.Bounds, len(body)) {
			off := off
			add("req-cut-eof", func(p *Plan) { p.RPCs[0].Client.Faults = []Fault{{Kind: "cut-eof", At: off}} })
			add("req-cut-err", func(p *Plan) { p.RPCs[0].Client.Faults = []Fault{{Kind: "cut-err", At: off}} })
		}
	} else {
		for _, off := range near(nil, nil, len(body)) {
			off := off
			add("req-cut-eof", func(p *Plan) { p.RPCs[0].Client.Faults = []Fault{{Kind: "cut-eof", At: off}} })
			add("req-cut-err", func(p *Plan) { p.RPCs[0].Client.Faults = []Fault{{Kind: "cut-err", At: off}} })
		}
	}
	// flag bytes that mean something in one of the protocols (end-of-stream, trailers) or sit next to the legal ones, and
	// the smallest length lies
	hotFlags := []int{2, 3, 4, 0x80, 0x81, 0x82, 0xff}
	if enveloped(rc.Client.Form) {
		for fi := range rc.Client.Msgs {
			fi := fi
			for _, fl := range hotFlags {
				fl := fl
				add("req-flag", func(p *Plan) { f := fl; p.RPCs[0].Client.Msgs[fi].Flags = &f })
			}
			for _, d := range []int{1, -1} {
				d := d
				add("req-len", func(p *Plan) { p.RPCs[0].Client.Msgs[fi].LenDelta = d })
			}
		}
	}
	if rc.Client.Form != FormConnectGet && rc.Client.Compression == "" {
		if enveloped(rc.Client.Form) {
			s0 := 0
			for fi, end := range st.rendered.Bounds {
				fi := fi
				if body[s0] == 0 {
					for _, raw := range c09PayloadVariants(body[s0+5 : end]) {
						raw := raw
						add("req-payload", func(p *Plan) {
							p.RPCs[0].Client.Msgs[fi].RawPayload, p.RPCs[0].Client.Msgs[fi].HasRaw, p.RPCs[0].Client.Msgs[fi].Compressed = raw, true, false
						})
					}
				}
				s0 = end
			}
		} else {
			for _, raw := range c09PayloadVariants(body) {
				raw := raw
				add("req-payload", func(p *Plan) { p.RPCs[0].Client.RawBody, p.RPCs[0].Client.HasRawBody = raw, true })
			}
		}
	}
	dry := Run(base)
	if len(dry.RPCs) == 1 && len(dry.RPCs[0].Backend) == 1 {
		d := dry.RPCs[0]
		if d.Backend[0].Stream {
			for mi := range rc.Backend.Resp.Msgs {
				mi := mi
				for _, fl := range hotFlags {
					fl := fl
					add("resp-flag", func(p *Plan) { f := fl; p.RPCs[0].Backend.Resp.Msgs[mi].Flags = &f })
				}
				for _, dl := range []int{1, -1} {
					dl := dl
					add("resp-len", func(p *Plan) { p.RPCs[0].Backend.Resp.Msgs[mi].LenDelta = dl })
				}
			}
		}
		for _, off := range near(d.respPrefixes, d.respBounds, d.respLen) {
			off := off
			add("resp-cut", func(p *Plan) { p.RPCs[0].Backend.Resp.CutAt = off })
			if d.Backend[0].Protocol == ProtoGRPC {
				add("resp-cut-ok-trailers", func(p *Plan) { p.RPCs[0].Backend.Resp.CutAt, p.RPCs[0].Backend.Resp.CutPlusEnd = off, true })
			}
		}
		add("resp-omit-end", func(p *Plan) { p.RPCs[0].Backend.Resp.OmitEnd = true })
		c09RespExtras(add, rc, d.Backend[0], d)
		if !d.Backend[0].Stream {
			// a declared Content-Length that the body does not honour, by one byte either way
			for _, dl := range []string{"+1", "-1"} {
				dl := dl
				add("resp-cl", func(p *Plan) { p.RPCs[0].Backend.Resp.DeclareCL = dl })
			}
		}
	}
	if !enveloped(rc.Client.Form) && rc.Client.Form != FormConnectGet {
		for _, dl := range []string{"+1", "-1"} {
			dl := dl
			add("req-cl", func(p *Plan) { p.RPCs[0].Client.DeclareCL = dl })
		}
	}
	return out
}

var c09Memo struct {
	corpus   []*Plan
	boundary map[int][]*Plan
}

func init() {
	register(&Check{
		ID:    "C09",
		Level: "fault_enumeration",
		Rule: "a corpus of small scenarios (4 RPC client forms x method shapes x 3 RPC target protocols x 5 codec/compression variants, plus REST clients against each RPC target and RPC clients against a REST-only service = every adapter path, 1-2 messages each way); on each, single faults are enumerated: " +
			"every byte offset at which the request body can end (clean EOF and connection error), every offset at which the backend can stop writing (for gRPC backends also under trailers that still say OK), missing end of stream, an end-of-stream frame whose payload is not an end of stream, data after the end-of-stream frame, message payloads that do not decode in their codec under a truthful envelope (both directions), every other value 0..255 of every envelope flag byte in both directions, " +
			"every single-bit flip of every compressed payload, frame lengths +-1/+3/huge, Content-Length +-1/+5. thorough enumerates all of them; quick draws a seeded sample of the same space, half of it from the cuts next to a frame boundary, the flag values that carry meaning in some protocol, and lengths off by one. " +
			"oracle: an independent strict parser decides whether the faulted stream is malformed; if so the client must see a non-OK outcome, the backend's completely decoded messages must be a prefix of the valid ones, " +
			"and the response must be terminated and well-formed; no hang (quiescence). distinct = (scenario class, fault kind, schedule hash); non-trivial = a fault was placed and the run executed",
		Gen: func(c *Chooser, tier string) *Plan {
			if c09Memo.corpus == nil {
				c09Memo.corpus, c09Memo.boundary = c09Corpus(), map[int][]*Plan{}
			}
			corpus := c09Memo.corpus
			bi := c.Intn(len(corpus))
			base := corpus[bi]
			if c.Bool() {
				bs, ok := c09Memo.boundary[bi]
				if !ok {
					bs = c09Boundary(base)
					c09Memo.boundary[bi] = bs
				}
				if len(bs) > 0 {
					return bs[c.Intn(len(bs))].clone()
				}
			}
			muts := c09Mutations(base, c, 0.004)
			if len(muts) == 0 {
				return nil
			}
			return muts[c.Intn(len(muts))]
		},
		Exhaustive: func(tier string) []*Plan {
			var all []*Plan
			for _, base := range c09Corpus() {
				all = append(all, c09Mutations(base, nil, 1)...)
			}
			return all
		},
		Oracle:     c09Oracle,
		NoShrink:   true,
		Components: stdComponents,
		Assumptions: []string{"the scripted backend is conforming: it fails the RPC in its own protocol when its read fails or its decoder rejects the bytes",
			"faults whose result is still a well-formed stream (cut on a frame boundary of a client stream, a flag value that is legal but changes meaning, a bit flip in an unchecked gzip header field) are not required to fail"},
	})
}

var _ = bytes.Equal
var _ = proto.Marshal

func firstSite(stack string) string {
	if i := strings.Index(stack, " < "); i > 0 {
		return stack[:i]
	}
	return stack
}
