#!/usr/bin/env python3
"""Regenerates /verif/MANIFEST.json from the table below (kept valid at all times)."""
import json, subprocess

STD = ("Trusted: Go toolchain, protobuf-go/protojson (shared by reference peers and code under test), compress/gzip+zlib, net/http.ReadRequest; "
       "net/http and http2 servers are replaced by SimRW, a model of the documented ResponseWriter contract with flush-only visibility; "
       "reference peers and validators follow my reading of the Connect/gRPC/gRPC-Web/google.api.http specifications. Seeded sampling, not proof.")

CHECKS = {
 "C01": ("exploration", "Seeded deterministic simulation of fault-free RPCs between two independent reference protocol peers with the real transcoder in the middle; sequence equality of both message streams over sampled inputs x configurations x per-frame choices.",
         "deterministic simulation: seeded workloads, conservation/order/exactly-once oracle over recorded stream histories"),
 "C02": ("exploration", "Every request a service handler receives in the simulated world passes a strict per-protocol validator and the keep-if-acceptable negotiation rule, over sampled subset configurations.",
         "deterministic simulation: invariant monitor at the backend seam over seeded configurations"),
 "C03": ("exploration", "The response-writer event history of every simulated RPC passes a strict validator for the client's own protocol with an exactly-one-terminal count, over well-formed and detectably misbehaving backends.",
         "deterministic simulation: invariant monitor at the client seam over seeded backend behaviours"),
 "C04": ("exploration", "Scripted backends fail in their own protocol with sampled codes, escaping-heavy messages, details and positions, or with bare HTTP statuses and raw grpc-status texts; the client's parsed outcome is compared with a reference error model built from the published code tables.",
         "deterministic simulation: reference error model over seeded error scripts"),
 "C05": ("exploration", "Sampled header/trailer multimaps in both directions and both trailer declaration styles; relocation model checked at the backend seam and at the client seam (position per client protocol, no status-key leaks).",
         "deterministic simulation: metadata relocation model over seeded header sets"),
 "C09": ("fault_enumeration", "Single faults are enumerated on a corpus of small scenarios covering every adapter path: every request cut offset (clean and error), every response cut offset, every flag byte value, every single-bit flip of compressed payloads, frame-length and Content-Length mis-statements; an independent strict parser decides malformedness; thorough is the complete enumeration, quick a seeded sample.",
         "deterministic simulation: exhaustive single-fault enumeration (crash points on both streams) with a reference stream parser as oracle"),
 "C10": ("exploration", "Limits from 16 B to 1 MiB with one message placed around L in each representation (wire, decompressed, re-encoded; ratios to about 1000:1 through real gzip/zlib), both directions, every adapter path; outcome rule (all fit => never resource_exhausted; exceed => resource_exhausted or streamed intact) plus deterministic buffer-growth and decompressor-output accounting through the buffer-pool hook and decompressor wrappers against the bound 8L+64KiB.",
         "deterministic simulation: size-boundary workloads with deterministic buffer/decompression accounting at the seams"),
 "C11": ("exploration", "Hostile raw client requests, protocol-breaking scripted backends and transport faults (cuts, client gone, cancellation, handler panics, I/O after return) are drawn per run; no panic may escape ServeHTTP, the world must reach quiescence with all tasks finished, and the response-writer contract model must see one head and a consistent body.",
         "deterministic simulation with fault injection: seeded hostile workloads, quiescence-based termination and response-writer contract monitors"),
 "C12": ("exploration", "The full boundary table of the three timeout encodings x four target protocols (plus seeded interior values and malformed strings) is run through the simulated world; three independent grammars with exact rational arithmetic decide never-extended / short-by-less-than-a-unit / never-rejected / malformed-not-dispatched. Schedules and faults play no role for this property; the simulator is the closed world and dispatch counter.",
         "deterministic simulation used as closed-world harness: reference timeout grammars over an enumerated boundary table"),
 "C13": ("exploration", "Requests that need no conversion or match no endpoint are generated with arbitrary headers, query strings, declared lengths and protocol-invalid bodies under all segmentations and body faults; field-by-field and byte-by-byte identity is checked at the downstream handler and at the client, including flush pass-through.",
         "deterministic simulation with fault injection: identity oracle at both seams under seeded I/O schedules and body faults"),
 "C14": ("exploration", "2..6 RPCs (incl. full-duplex ones with reader and writer sub-tasks, and one-sided failures) share one Transcoder and pools under seeded uniform/PCT/sticky/starve schedules that switch tasks at every seam call; per-RPC solo-vs-concurrent differential, pool/compressor ownership monitor, and well-formedness of duplex responses under one-sided faults. A second phase runs the same plan generator under the race-detector build of the simulator (scheduler hand-over invisible to the detector, simulator code uninstrumented, explicit happens-before edges only where a real program has them: goroutine start, handler join, pool Put->Get, mutexes): unsynchronised accesses by two tasks inside the package under test are reported with both stacks.",
         "deterministic simulation: seeded schedule search over N concurrent RPCs with solo differential and pool-ownership invariants, plus the Go race detector driven by the same deterministic scheduler"),
 "C15": ("exploration", "Histories of 0..20 valid and hostile RPCs (in a third of the worlds over two services with their own limits, codecs and type resolvers) precede a probe on one Transcoder with adversarial deterministic pool policies; the probe's canonical result is compared with a fresh Transcoder; pool and compressor misuse monitors are armed.",
         "deterministic simulation: history-vs-fresh differential under adversarial deterministic pool reuse"),
 "C16": ("exploration", "Bounded liveness by quiescence: a strict ping-pong between a simulated client that only sees flushed bytes and a scripted handler; any withheld byte is a deadlock the scheduler detects exactly (no timeout), over sampled adapter pairings, round counts, sizes and schedules.",
         "deterministic simulation: strict ping-pong on a flush-visibility transport with deadlock (quiescence) detection"),
 "C17": ("exploration", "Configurations are generated by construction with known ground truth (valid, or one of 17 single-edit invalid classes); invalid ones must be refused; accepted ones are probed inside the simulated world: every binding through the URL the reference encoder builds, selector exactness through a Ping/PingAll prefix pair, per-service options against defaults through the protocol and codec the backend receives. The accept/reject half is a pure predicate.",
         "deterministic simulation used as closed-world harness: ground truth by construction plus probing of accepted configurations"),
 "C18": ("exploration", "Twelve rejection classes and every exit path of ServeHTTP (reached by fault schedules) are checked on the event history: dispatch count, handler context cancelled at the return event, no body/writer call after it.",
         "deterministic simulation with fault injection: event-history oracle over global sequence numbers"),
 "C19": ("exploration", "GET decision model: inbound (405 + Allow + no dispatch for methods with side effects; GET == POST metamorphism) and outbound to a Connect backend (GET only under all four preconditions), with every issued GET re-run at URL limits of exactly its length and +-1, +-2. Closed-world reference model; schedules and faults play no role.",
         "deterministic simulation used as closed-world harness: GET decision reference model with computed URL-length boundaries"),
 "C06": ("exploration", "Seeded route tables from the template grammar (WithRules and annotations, overlaps, verbs, custom kinds) and request paths full of escapes and perturbations; an independent matcher on the raw path decides dispatch+captures / 404 / 405+Allow and literal-over-wildcard precedence, abstaining where the statement leaves room; registration order is reversed as a metamorphic check. Closed-world reference model; no schedule or fault dependence.",
         "deterministic simulation used as closed-world harness: independent google.api.http template matcher plus registration-order metamorphism"),
 "C07": ("exploration", "Reference binder and its inverse (written from http.proto / AIP-127) over 24 bound methods: REST requests rendered from seeded messages reach an RPC backend whose decoded message must equal the reference binder's; RPC messages sent to a REST-only backend are re-parsed by the reference router+binder and must come back unchanged; response_body and HttpBody handling; ill-typed parameters => invalid_argument. Closed-world reference model; no schedule or fault dependence.",
         "deterministic simulation used as closed-world harness: independent reference binder/encoder for google.api.http over seeded messages"),
 "C08": ("exploration", "I/O segmentation is the schedule: every scenario is run atomically and under drawn segmentations of deliveries, handler read sizes, handler writes/flushes and scheduling policies; metamorphic equality of handler-visible request bytes and canonical client outcome.",
         "deterministic simulation: atomic-vs-segmented differential under seeded I/O schedules"),
 "C20": ("exploration", "Same Plan and schedule against nine ways of supplying one schema to NewTranscoder (by name, generated descriptor, fresh protodesc file, private registry with google.api.http as a dynamic extension, no parent file, NotFound resolver alone and combined, resolvers that know all but the request-only / response-only types), for one generated service and for two services defined in one run-time built file; canonical outcomes and backend views must be equal. vanguardgrpc.NewTranscoder is not covered (grpc-go's handler transport cannot be scheduled).",
         "deterministic simulation: metamorphic same-plan execution across schema provenances"),
}
REASON_PENDING = "check not built yet in this round (claimed in DESIGN.md; will be added)"

def main():
    props = [json.loads(l) for l in open('/verif/properties.jsonl')]
    checks = []
    for pid in sorted(CHECKS):
        cat, text, tech = CHECKS[pid][:3]
        checks.append({"property_id": pid, "quick_cmd": "./vsim check %s --tier quick" % pid, "thorough_cmd": "./vsim check %s --tier thorough" % pid,
                       "evidence_file": "/verif/evidence/%s.json" % pid, "replay_cmd_template": "./vsim replay {path}", "engine": "vsim",
                       "level_claimed": {"category": cat, "text": text, "design_ref": "DESIGN.md section 7, " + pid},
                       "level_note": STD, "technique": tech})
    na = [{"property_id": p["id"], "reason": REASON_PENDING} for p in props if p["id"] not in CHECKS]
    hooks = subprocess.run(["git", "-C", "/repo", "log", "--format=%h %s"], capture_output=True, text=True).stdout.splitlines()
    hook_commits = [l.split()[0] for l in hooks if l.split(" ", 1)[1].startswith("verif:")]
    m = {"version": 1, "setup_cmd": "./vsim build --all",
         "hooks": {"guard": "verif", "enable": "go build -tags verif (vsim build compiles /verif/sim into /repo's module through -overlay; nothing is written to /repo). Beyond the committed buffer-pool hook, the overlay compiles the package's non-test files that import sync or time from copies in which those imports name /verif/sim/verifsync and /verif/sim/verifsync/simtime (lock, sync.Pool and clock seams; build-time only, same line numbers). ./vsim build --all also builds the race-detector variant (-race, simulator packages excluded from instrumentation).",
                   "baseline_off_cmd": "cd /repo && GOFLAGS=-mod=mod GOPROXY=off go test -vet=off -count=1 -timeout 25m ./...",
                   "source_commits": hook_commits, "add_only": True},
         "engines": [{"name": "vsim", "path": "/verif/vsim", "serves_properties": sorted(CHECKS),
                      "kind_free_text": "deterministic simulator with fault injection: baton scheduler, simulated body/response-writer/context/pools, reference protocol peers, structural shrinker, replay files"}],
         "checks": checks, "not_applicable": na,
         "notes": "Known findings and fixed defects: /verif/known_findings.json. Replay files are regenerated under /verif/replays."}
    json.dump(m, open('/verif/MANIFEST.json', 'w'), indent=1)

main()
