#!/usr/bin/env python3
"""Apply a seeded change to /repo, run checks against it, and undo it straight afterwards.

usage: tools/try_seeded.py <patch.diff> <C01,C08,...|all> [budget_seconds]
Prints one line per check: id, exit code, and the first VIOLATION fingerprints.
"""
import json, os, subprocess, sys

patch, ids = sys.argv[1], sys.argv[2]
budget = sys.argv[3] if len(sys.argv) > 3 else "12"
ALL = ["C%02d" % i for i in range(1, 21)]
ids = ALL if ids == "all" else ids.split(",")
st = subprocess.run(["git", "-C", "/repo", "status", "--porcelain"], capture_output=True, text=True).stdout.strip()
if st:
    print("refusing: /repo is not clean:\n" + st)
    sys.exit(2)
r = subprocess.run(["git", "-C", "/repo", "apply", patch], capture_output=True, text=True)
if r.returncode != 0:
    print("patch does not apply:", r.stderr)
    sys.exit(2)
results = {}
try:
    for cid in ids:
        env = dict(os.environ, VSIM_BUDGET=budget)
        p = subprocess.run(["/verif/vsim", "check", cid, "--tier", "quick"], capture_output=True, text=True, env=env, cwd="/verif")
        fps = [l.strip() for l in p.stdout.splitlines() if l.startswith("  C")]
        results[cid] = {"exit": p.returncode, "violations": fps[:6]}
        print(cid, "exit=%d" % p.returncode, "; ".join(f[:140] for f in fps[:3]))
        if p.returncode == 2:
            print(p.stderr[-800:])
finally:
    subprocess.run(["git", "-C", "/repo", "checkout", "--", "."], check=True)
    # evidence files were rewritten against a modified tree: restore the committed ones
    subprocess.run(["git", "-C", "/verif", "checkout", "--", "evidence"], check=False)
print(json.dumps(results))
