#!/usr/bin/env python3
"""Writes meta.json for the second part of wave 12 (kept for the record; run once)."""
import json

W = ("tools/verify_seeded.sh in the agent's scratch worktree moved onto /repo HEAD: go build ./...; existing suite "
     "(go test -vet=off -count=1 ./...) passes with the change; TestSeededDemo fails with it and passes without it. "
     "tools/sweep_seeded.sh <worktree> then ran the quick tier of the listed checks against the changed tree (VSIM_REPO/VSIM_OUT).")
F = ["patch.diff", "zz_seeded_demo_test.go", "SEEDED.md (the sub-agent's own write-up)", "verify.log"]
M = {
    "C02g": ("C02", "C02", "the re-framing request path forwards a recomputed Content-Length to the backend, but treats a declared length of 0 like 'not declared': an un-enveloped client's empty message (Content-Length: 0) reaches an enveloped backend as a 5-byte envelope under Content-Length 0", ["C02"], ["C13"]),
    "C04g": ("C04", "C04", "httpExtractTrailers fetches exactly the announced names when the backend announced any: a gRPC backend that announces Grpc-Status and Grpc-Message in the Trailer header but sends Grpc-Status-Details-Bin (or further metadata) with http.TrailerPrefix loses its error details towards non-gRPC clients", ["C04", "C05"], ["C04, C05 (before the scripted backend could mix the two documented ways of sending trailers in one response)"]),
    "C07g": ("C07", "C07", "google.protobuf.Duration path/query parameters parsed by a hand-written helper that takes the sign of the nanoseconds from the parsed seconds: a negative duration between -1s and 0 (-0.5s) is accepted as +0.5s", ["C07"], ["C07 (before generated Durations could carry their sign in the nanos alone: seconds == 0, nanos < 0)"]),
    "C13g": ("C13", "C13", "newOperation builds the per-operation request with Request.Clone instead of WithContext: Clone copies the Trailer map while it holds only announced names; net/http fills the values into the ORIGINAL map after the body was read, so a passed-through handler never sees request trailer values", ["C13"], ["C13 (before request trailers existed in the simulated client: announced with the head, values put into Request.Trailer when the body reports EOF)"]),
    "C15g": ("C15", "C15", "decompressLimited calls decomp.Close() on its failing paths; the default decompressor is a zero gzip.Reader whose Close is a nil dereference until one Reset has got past a gzip header: a corrupt gzip header panics ServeHTTP on a fresh Transcoder and ends as a clean error after any earlier valid compressed RPC", ["C15", "C11", "C09"], ["C15, C11, C09 (before the simulator's gzip stand-in did, on Close before any successful Reset, what the real zero gzip.Reader does; it used to tolerate it)"]),
    "C20g": ("C20", "C20", "method options are searched for google.api.http only if the declaring file imports a file whose path is literally google/api/annotations.proto: a dynamically loaded descriptor graph that carries the annotations under another path (vendored tree) builds without error and serves no REST routes", ["C20"], ["C20 (before the vendored-tree provenance was added)", "C17"]),
}
for t, (prop, exp, needs, caught, missed) in M.items():
    meta = {"property": prop, "expected_check": exp, "tag": t, "needs_to_manifest": needs, "caught_by": caught, "missed_by": missed, "what_was_run": W, "files": F}
    json.dump(meta, open("/verif/seeded/%s/meta.json" % t, "w"), indent=1)
print("ok")
