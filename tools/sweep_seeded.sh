#!/bin/bash
# Run every check (quick tier) against a scratch worktree that carries a seeded change.
#   tools/sweep_seeded.sh <worktree> <tag> [budget] [workers] [ids]
# Output root /tmp/sweep-<tag> (binary, replays, evidence); prints one line per check.
wt=$1; tag=$2; budget=${3:-12}; workers=${4:-8}; ids=${5:-"C01 C02 C03 C04 C05 C06 C07 C08 C09 C10 C11 C12 C13 C14 C15 C16 C17 C18 C19 C20"}
out=/tmp/sweep-$tag; mkdir -p $out
export VSIM_REPO=$wt VSIM_OUT=$out VSIM_BUDGET=$budget VSIM_WORKERS=$workers GOCACHE=/verif/.build/gocache
mv $wt/zz_seeded_demo_test.go $out/ 2>/dev/null
/verif/vsim build > $out/build.log 2>&1 || { echo "$tag BUILD-ERROR"; tail -5 $out/build.log; exit 2; }
for c in $ids; do
  /verif/vsim check $c --tier quick > $out/$c.log 2>&1; rc=$?
  echo "$tag $c exit=$rc $(grep -A1 '^VIOLATION' $out/$c.log | grep '^  C' | head -3 | cut -c1-150 | tr '\n' ';')"
done
mv $out/zz_seeded_demo_test.go $wt/ 2>/dev/null
