#!/bin/bash
# Confirm a sub-agent's seeded change in its scratch worktree and move it onto /repo's current HEAD.
#   tools/verify_seeded.sh <worktree> <outdir>
# 1. rebase the uncommitted source change onto /repo HEAD (the worktree may have been cut from an older commit)
# 2. existing suite (demo set aside) must pass with the change
# 3. the demonstration must fail with the change and pass without it
# writes <outdir>/patch.diff, <outdir>/zz_seeded_demo_test.go, <outdir>/SEEDED.md, <outdir>/verify.log
set -u
export GOFLAGS=-mod=mod GOPROXY=off GOSUMDB=off GOTOOLCHAIN=local
GO=/opt/veriftools/go1.26.8/bin/go
wt=$1; out=$2
mkdir -p "$out"
log="$out/verify.log"; : > "$log"
cd "$wt" || exit 2
head=$(git -C /repo rev-parse HEAD)
mv zz_seeded_demo_test.go /tmp/$$.demo.go
[ -f SEEDED.md ] && mv SEEDED.md /tmp/$$.seeded.md
git diff > /tmp/$$.patch
git checkout -q -- . && git checkout -q --detach "$head" || { echo "cannot move worktree to $head" | tee -a "$log"; exit 2; }
if ! git apply --3way /tmp/$$.patch >>"$log" 2>&1; then
  echo "REBASE-CONFLICT (patch kept in /tmp/$$.patch)" | tee -a "$log"; cp /tmp/$$.demo.go zz_seeded_demo_test.go; exit 3
fi
git reset -q
git diff > "$out/patch.diff"
cp /tmp/$$.demo.go "$out/zz_seeded_demo_test.go"
[ -f /tmp/$$.seeded.md ] && cp /tmp/$$.seeded.md "$out/SEEDED.md"
echo "== build" >>"$log"
$GO build ./... >>"$log" 2>&1 || { echo "BUILD-FAILS" | tee -a "$log"; exit 1; }
echo "== suite with the change" >>"$log"
if $GO test -vet=off -count=1 -timeout 25m ./... >>"$log" 2>&1; then suite=pass; else suite=FAIL; fi
cp /tmp/$$.demo.go zz_seeded_demo_test.go
echo "== demo with the change" >>"$log"
if $GO test -vet=off -count=1 -timeout 10m -run 'TestSeededDemo' . >>"$log" 2>&1; then with=pass; else with=fail; fi
git diff > /tmp/$$.cur.patch; git checkout -q -- .   # (git stash is shared between worktrees: not safe side by side)
echo "== demo without the change" >>"$log"
if $GO test -vet=off -count=1 -timeout 10m -run 'TestSeededDemo' . >>"$log" 2>&1; then without=pass; else without=fail; fi
git apply /tmp/$$.cur.patch; rm -f /tmp/$$.cur.patch
rm -f /tmp/$$.demo.go /tmp/$$.seeded.md /tmp/$$.patch
echo "suite_with_change=$suite demo_with_change=$with demo_without_change=$without" | tee -a "$log"
[ "$suite" = pass ] && [ "$with" = fail ] && [ "$without" = pass ]
