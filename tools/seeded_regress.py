#!/usr/bin/env python3
"""Regression over the kept seeded changes, the way the brief prescribes: git -C /repo apply <patch>, run the check of the
property the change breaks (quick tier), git -C /repo checkout -- .  Output and evidence of these runs go to a scratch
directory (VSIM_OUT), never to /verif/evidence.

usage: tools/seeded_regress.py [tag ...] [--budget N] [--seed S]
"""
import json, os, shutil, subprocess, sys, tempfile

args = [a for a in sys.argv[1:] if not a.startswith("--")]
budget = next((a.split("=")[1] for a in sys.argv if a.startswith("--budget=")), "15")
seed = next((a.split("=")[1] for a in sys.argv if a.startswith("--seed=")), "1")
base = "/verif/seeded"
tags = args or sorted(os.listdir(base))
if subprocess.run(["git", "-C", "/repo", "status", "--porcelain"], capture_output=True, text=True).stdout.strip():
    sys.exit("refusing: /repo is not clean")
out = tempfile.mkdtemp(prefix="seeded-regress-")
missed = []
try:
    for tag in tags:
        meta = json.load(open(os.path.join(base, tag, "meta.json")))
        if meta.get("status"):
            print(tag, "skipped:", meta["status"])
            continue
        prop = meta.get("expected_check", meta["property"])
        patch = os.path.join(base, tag, "patch.diff")
        r = subprocess.run(["git", "-C", "/repo", "apply", patch], capture_output=True, text=True)
        if r.returncode != 0:
            print(tag, "PATCH DOES NOT APPLY:", r.stderr.strip()[:200])
            missed.append(tag)
            continue
        try:
            env = dict(os.environ, VSIM_OUT=out, VSIM_BUDGET=budget, VERIF_SEED=seed, GOCACHE="/verif/.build/gocache")
            p = subprocess.run(["/verif/vsim", "check", prop, "--tier", "quick"], capture_output=True, text=True, env=env, cwd="/verif")
            fps = [l.strip() for l in p.stdout.splitlines() if l.startswith("  C")]
            print(tag, prop, "exit=%d" % p.returncode, "; ".join(f[:110] for f in fps[:2]))
            if p.returncode != 1:
                missed.append(tag)
                if p.returncode == 2:
                    print(p.stdout[-600:], p.stderr[-600:])
        finally:
            subprocess.run(["git", "-C", "/repo", "checkout", "--", "."], check=True)
            subprocess.run(["git", "-C", "/repo", "clean", "-fdq"], check=True)
finally:
    shutil.rmtree(out, ignore_errors=True)
print("MISSED:", missed if missed else "none")
sys.exit(1 if missed else 0)
