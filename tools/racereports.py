#!/usr/bin/env python3
"""Summarise Go race-detector logs: keep reports whose two accesses are both made by the package under test (the first
frame that is neither runtime nor library belongs to connectrpc.com/vanguard and no simulator frame lies above it)."""
import collections, glob, re, sys

def parse(txt):
    for rep in txt.split('==================\n'):
        if 'DATA RACE' not in rep:
            continue
        acc, cur = [], None
        for line in rep.split('\n'):
            t = line.strip()
            if re.match(r'^(Read|Write|Previous read|Previous write|Atomic read|Atomic write|Previous atomic read|Previous atomic write) at 0x', t):
                cur = []
                acc.append(cur)
            elif t.startswith('Goroutine ') :
                cur = None
            elif cur is not None and line.startswith('  ') and not line.startswith('      ') and t:
                cur.append(t)
        yield rep, acc[:2]

def sut_site(frames):
    for f in frames:
        if 'internal/verifsim' in f:
            return None
        if f.startswith('connectrpc.com/vanguard.'):
            return re.sub(r'\(.*', '', f[len('connectrpc.com/vanguard.'):].replace('(*', '').replace(')', ''))
    return None

if __name__ == '__main__':
    c, ex = collections.Counter(), {}
    total = 0
    for path in sys.argv[1:]:
        for g in glob.glob(path):
            for rep, acc in parse(open(g).read()):
                total += 1
                if len(acc) < 2:
                    continue
                a, b = sut_site(acc[0]), sut_site(acc[1])
                if a and b:
                    k = ' x '.join(sorted([a, b]))
                    c[k] += 1
                    ex.setdefault(k, rep)
    print(total, 'reports,', sum(c.values()), 'between two accesses of the package under test')
    for k, n in c.most_common():
        print('%4d  %s' % (n, k))
    if '-v' in sys.argv or True:
        for k in list(ex)[:0]:
            print(ex[k][:2500])
