#!/usr/bin/env python3
"""Rewrites the two lists of DESIGN.md section 14 (repaired defects, known findings) from known_findings.json,
and the counts in the status header."""
import json, re, subprocess
p = '/verif/DESIGN.md'
s = open(p).read()
kf = json.load(open('/verif/known_findings.json'))
fixed = '\n'.join('* ' + f[len('fixed: '):] for f in kf['fixed'])
m = re.search(r"(that found it passes afterwards and would report it again\):\n\n)(.*?)(\n\n\*\*Recorded as known findings\*\*)", s, re.S)
s = s[:m.start(2)] + fixed + s[m.end(2):]
m = re.search(r"(\*\*Recorded as known findings\*\* \(real, but the repair is not a small local patch\):\n\n)(.*?)(\n\nFour former known findings|\n\nThree former known findings)", s, re.S)
kfl = '\n'.join('* **%s / %s** (match %s): %s' % (f['property'], f['rule'], json.dumps(f['match']), f['what']) for f in kf['findings'])
s = s[:m.start(2)] + kfl + s[m.end(2):]
nfix = sum(1 for l in subprocess.run(['git', '-C', '/repo', 'log', '--format=%s'], capture_output=True, text=True).stdout.splitlines() if l.startswith('fix:'))
s = re.sub(r"\(\d+ repaired with `fix:` commits, \d+ recorded as known findings?\)", "(%d repaired with `fix:` commits, %d recorded as known finding%s)" % (nfix, len(kf['findings']), '' if len(kf['findings']) == 1 else 's'), s)
s = re.sub(r"\((?:two|one|\d+) known findings? left, section 14\)", "(%d known finding%s left, section 14)" % (len(kf['findings']), '' if len(kf['findings']) == 1 else 's'), s)
open(p, 'w').write(s)
print(nfix, 'fixes,', len(kf['findings']), 'known findings')
